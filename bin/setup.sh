#!/bin/sh
# Build the verification tools from files on disk (offline).
set -e
ROOT="$(cd "$(dirname "$0")/.." && pwd)"
export GOFLAGS=-mod=mod GOPROXY=off GOSUMDB=off GOTOOLCHAIN=local
cd "$ROOT/tools"
go1.26.8 build -o "$ROOT/bin/vinstr" ./vinstr
go1.26.8 build -o "$ROOT/bin/vrun" ./vrun
echo "setup: built $ROOT/bin/vinstr $ROOT/bin/vrun"
