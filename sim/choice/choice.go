// Package choice is the single source of nondeterminism of a simulated run.
//
// Every decision (configuration knob, workload operation, fault placement,
// which task or network event goes next) is one Intn draw. Draws are recorded;
// a recorded trace can be replayed, and a modified trace (shorter, zeroed,
// decremented) is still a valid input: missing or out-of-range entries read as
// 0, which is by convention the simplest alternative.
package choice

// Source produces and records draws. A Source has named sub-streams (the
// workload/fault stream is the Source itself, the schedule stream is
// Sub("sched")): each stream is recorded and shrunk separately, so that
// shortening the workload does not re-interpret the schedule draws.
type Source struct {
	state      uint64 // splitmix64 state
	replay     []uint32
	useRep     bool
	pos        int
	Rec        []uint32 // effective values drawn in this run
	Bounds     []uint32 // bound of each draw
	Labels     []string // label of each draw (only kept when KeepLabels)
	KeepLabels bool
	Overrun    int // draws made after the replay trace was exhausted
	subs       map[string]*Source
	subReplay  map[string][]uint32
	seed       uint64
}

// Trace is a recorded set of streams ("" is the main stream).
type Trace map[string][]uint32

// New returns a random source seeded with seed.
func New(seed uint64) *Source {
	return &Source{state: seed*0x9E3779B97F4A7C15 + 0x1234567, seed: seed}
}

// Replay returns a source that replays the given trace.
func Replay(tr Trace) *Source {
	return &Source{replay: tr[""], useRep: true, subReplay: tr}
}

// Sub returns the named sub-stream (created on first use).
func (s *Source) Sub(name string) *Source {
	if s.subs == nil {
		s.subs = map[string]*Source{}
	}
	if c, ok := s.subs[name]; ok {
		return c
	}
	var c *Source
	if s.useRep {
		c = &Source{replay: s.subReplay[name], useRep: true}
	} else {
		c = New(Mix(s.seed, "sub:"+name, 0))
	}
	c.KeepLabels = s.KeepLabels
	s.subs[name] = c
	return c
}

// Recorded returns the effective trace of this run (trailing zeros dropped).
func (s *Source) Recorded() Trace {
	tr := Trace{"": trim(s.Rec)}
	for n, c := range s.subs {
		tr[n] = trim(c.Rec)
	}
	return tr
}

// AllLabels returns labels per stream (when KeepLabels).
func (s *Source) AllLabels() map[string][]string {
	m := map[string][]string{"": s.Labels}
	for n, c := range s.subs {
		m[n] = c.Labels
	}
	return m
}

// Draws is the total number of draws over all streams.
func (s *Source) Draws() int {
	n := len(s.Rec)
	for _, c := range s.subs {
		n += len(c.Rec)
	}
	return n
}

func trim(r []uint32) []uint32 {
	r = append([]uint32{}, r...)
	for len(r) > 0 && r[len(r)-1] == 0 {
		r = r[:len(r)-1]
	}
	return r
}

// Len is the total length of a trace.
func (t Trace) Len() int {
	n := 0
	for _, v := range t {
		n += len(v)
	}
	return n
}

// Clone copies a trace.
func (t Trace) Clone() Trace {
	c := Trace{}
	for k, v := range t {
		c[k] = append([]uint32{}, v...)
	}
	return c
}

func (s *Source) next() uint64 {
	s.state += 0x9E3779B97F4A7C15
	z := s.state
	z = (z ^ (z >> 30)) * 0xBF58476D1CE4E5B9
	z = (z ^ (z >> 27)) * 0x94D049BB133111EB
	return z ^ (z >> 31)
}

// Intn returns a value in [0,n). n <= 1 returns 0 without consuming a draw.
func (s *Source) Intn(n int, label string) int {
	if n <= 1 {
		return 0
	}
	var v uint32
	if s.useRep {
		if s.pos < len(s.replay) {
			v = s.replay[s.pos]
			if int(v) >= n {
				v = 0
			}
		} else {
			s.Overrun++
		}
		s.pos++
	} else {
		v = uint32(s.next() % uint64(n))
	}
	s.Rec = append(s.Rec, v)
	s.Bounds = append(s.Bounds, uint32(n))
	if s.KeepLabels {
		s.Labels = append(s.Labels, label)
	}
	return int(v)
}

// Bool draws a boolean that is true with probability num/den (0 = false).
func (s *Source) Bool(num, den int, label string) bool {
	if num <= 0 {
		return false
	}
	// value 0 must mean "false": true iff v > den-num-1 ... keep simple:
	v := s.Intn(den, label)
	return v >= den-num
}

// Range draws an integer in [lo,hi].
func (s *Source) Range(lo, hi int, label string) int {
	if hi <= lo {
		return lo
	}
	return lo + s.Intn(hi-lo+1, label)
}

// Pick draws an index weighted by w (w[i] >= 0). Index 0 should be the simplest.
func (s *Source) Pick(w []int, label string) int {
	tot := 0
	for _, x := range w {
		tot += x
	}
	if tot <= 0 {
		return 0
	}
	v := s.Intn(tot, label)
	for i, x := range w {
		if v < x {
			return i
		}
		v -= x
	}
	return len(w) - 1
}

// Mix derives a per-run seed from a base seed, a scenario name and an index.
func Mix(base uint64, scenario string, i uint64) uint64 {
	h := base ^ 0xcbf29ce484222325
	for _, c := range []byte(scenario) {
		h = (h ^ uint64(c)) * 1099511628211
	}
	h ^= i * 0x9E3779B97F4A7C15
	h = (h ^ (h >> 30)) * 0xBF58476D1CE4E5B9
	h = (h ^ (h >> 27)) * 0x94D049BB133111EB
	return h ^ (h >> 31)
}
