// Package simnet is the in-memory, driver-mediated network of the system
// simulation. It provides net.Listener / net.Conn with TCP-like semantics
// (full duplex, half-close, reset, deadlines on the bubble clock, bounded
// send buffers) but nothing moves by itself: Write only queues bytes as
// "in flight"; Dial only registers a pending connection attempt. The driver
// (root goroutine of the synctest bubble) enumerates what could happen next in
// a canonical order and applies exactly one event per step.
//
// The send buffer is effectively unbounded: Write never blocks. (Back-pressure
// would let a writer block while holding a standard-library sync.Mutex —
// httputil's maxLatencyWriter does — and a second goroutine waiting for that
// mutex is not "durably blocked", so the bubble would never quiesce.)
//
// In free-delivery mode (race tier) writes are delivered immediately and dials
// complete at once; there is no driver.
package simnet

import (
	"errors"
	"fmt"
	"io"
	"net"
	"os"
	"sort"
	"sync"
	"time"
)

// Addr is a simulated address.
type Addr struct{ S string }

func (a Addr) Network() string { return "tcp" }
func (a Addr) String() string  { return a.S }

var (
	ErrRefused = &net.OpError{Op: "dial", Net: "tcp", Err: errors.New("connect: connection refused")}
	errReset   = &net.OpError{Op: "read", Net: "tcp", Err: errors.New("read: connection reset by peer")}
	errWReset  = &net.OpError{Op: "write", Net: "tcp", Err: errors.New("write: broken pipe")}
)

type timeoutError struct{}

func (timeoutError) Error() string   { return "i/o timeout" }
func (timeoutError) Timeout() bool   { return true }
func (timeoutError) Temporary() bool { return true }

// Net is one simulated network.
type Net struct {
	mu        sync.Mutex
	cond      *sync.Cond
	listeners map[string]*Listener
	conns     []*Conn
	dials     []*pendingDial
	counters  map[string]int
	Free      bool // free-delivery mode
	SendBuf   int
	activity  chan struct{}
	// accounting
	Delivered int64
}

// New creates a network.
func New() *Net {
	n := &Net{listeners: map[string]*Listener{}, counters: map[string]int{}, SendBuf: 256 << 20, activity: make(chan struct{}, 1)}
	n.cond = sync.NewCond(&n.mu)
	return n
}

func (n *Net) bump() {
	select {
	case n.activity <- struct{}{}:
	default:
	}
}

// Bump wakes a driver waiting on Activity.
func (n *Net) Bump() { n.bump() }

// Activity is signalled whenever something new could be deliverable.
func (n *Net) Activity() <-chan struct{} { return n.activity }

// ---------------------------------------------------------------------------
// listeners and dialing

type Listener struct {
	n       *Net
	addr    string
	queue   []*Conn
	closed  bool
	Refuse  bool // refuse new connections (backend down)
	Hang    bool // never answer SYN (black hole)
}

func (n *Net) Listen(addr string) *Listener {
	n.mu.Lock()
	defer n.mu.Unlock()
	l := &Listener{n: n, addr: addr}
	n.listeners[addr] = l
	return l
}

func (l *Listener) Accept() (net.Conn, error) {
	l.n.mu.Lock()
	defer l.n.mu.Unlock()
	for len(l.queue) == 0 && !l.closed {
		l.n.cond.Wait()
	}
	if l.closed {
		return nil, net.ErrClosed
	}
	c := l.queue[0]
	l.queue = l.queue[1:]
	return c, nil
}

func (l *Listener) Close() error {
	l.n.mu.Lock()
	l.closed = true
	l.n.cond.Broadcast()
	l.n.mu.Unlock()
	return nil
}

func (l *Listener) Addr() net.Addr { return Addr{l.addr} }

// SetMode changes how the listener treats new connection attempts.
func (l *Listener) SetMode(refuse, hang bool) {
	l.n.mu.Lock()
	l.Refuse, l.Hang = refuse, hang
	l.n.mu.Unlock()
}

type pendingDial struct {
	id      string
	role    string
	addr    string
	from    string
	done    bool
	conn    *Conn
	err     error
	started time.Time
}

// Dial registers a connection attempt and blocks until the driver completes
// it, the timeout expires or cancel fires.
func (n *Net) Dial(role, from, addr string, timeout time.Duration, cancel <-chan struct{}) (net.Conn, error) {
	n.mu.Lock()
	key := role + ">" + addr
	n.counters[key]++
	d := &pendingDial{id: fmt.Sprintf("%s#%d", key, n.counters[key]), role: role, addr: addr, from: from, started: time.Now()}
	if n.Free {
		n.completeLocked(d)
		c, err := d.conn, d.err
		n.mu.Unlock()
		if err != nil {
			return nil, err
		}
		return c, nil
	}
	n.dials = append(n.dials, d)
	n.mu.Unlock()
	n.bump()
	var tm *time.Timer
	timedOut := false
	if timeout > 0 {
		tm = time.AfterFunc(timeout, func() {
			n.mu.Lock()
			if !d.done {
				d.done, d.err = true, &net.OpError{Op: "dial", Net: "tcp", Err: timeoutError{}}
				timedOut = true
				n.removeDialLocked(d)
			}
			n.cond.Broadcast()
			n.mu.Unlock()
		})
	}
	stop := make(chan struct{})
	if cancel != nil {
		go func() {
			select {
			case <-cancel:
				n.mu.Lock()
				if !d.done {
					d.done, d.err = true, &net.OpError{Op: "dial", Net: "tcp", Err: errors.New("operation was canceled")}
					n.removeDialLocked(d)
				}
				n.cond.Broadcast()
				n.mu.Unlock()
			case <-stop:
			}
		}()
	}
	n.mu.Lock()
	for !d.done {
		n.cond.Wait()
	}
	c, err := d.conn, d.err
	n.mu.Unlock()
	close(stop)
	if tm != nil {
		tm.Stop()
	}
	_ = timedOut
	if err != nil {
		return nil, err
	}
	return c, nil
}

func (n *Net) removeDialLocked(d *pendingDial) {
	for i, x := range n.dials {
		if x == d {
			n.dials = append(n.dials[:i], n.dials[i+1:]...)
			return
		}
	}
}

// completeLocked resolves a dial against the destination listener.
func (n *Net) completeLocked(d *pendingDial) {
	l := n.listeners[d.addr]
	if l == nil || l.closed || l.Refuse {
		d.done, d.err = true, ErrRefused
		n.cond.Broadcast()
		return
	}
	cid := d.id
	client := &Conn{n: n, id: cid, side: "c", local: d.from, remote: d.addr}
	server := &Conn{n: n, id: cid, side: "s", local: d.addr, remote: d.from}
	client.peer, server.peer = server, client
	client.in, server.in = &half{}, &half{}
	pl := &pairLock{}
	pl.cond = sync.NewCond(&pl.mu)
	client.pl, server.pl = pl, pl
	n.conns = append(n.conns, client)
	l.queue = append(l.queue, server)
	d.done, d.conn = true, client
	n.cond.Broadcast()
}

// ---------------------------------------------------------------------------
// connections

// half is the data flowing towards one endpoint.
type half struct {
	inflight  []byte // written by the peer, not yet delivered
	ready     []byte // delivered, not yet read
	finQueued bool   // peer closed its write side; FIN follows the in-flight bytes
	fin       bool   // FIN delivered: EOF after ready is drained
	rst       bool   // connection reset
	rstQueued bool   // a reset is on its way, behind the bytes (and FIN) already in flight
	blackhole bool   // bytes written from now on vanish (stall)
	total     int64  // bytes ever queued
}

// pairLock guards one connection (both endpoints) in free-delivery mode. In driver mode
// everything is under Net.mu; in free mode -- used under the race detector -- a single
// network-wide mutex would order every socket operation of every goroutine with every other
// one and hide races in the code under test behind happens-before edges no real kernel makes.
type pairLock struct {
	mu   sync.Mutex
	cond *sync.Cond
}

func (c *Conn) lock() {
	if c.n.Free {
		c.pl.mu.Lock()
	} else {
		c.n.mu.Lock()
	}
}

func (c *Conn) unlock() {
	if c.n.Free {
		c.pl.mu.Unlock()
	} else {
		c.n.mu.Unlock()
	}
}

func (c *Conn) wait() {
	if c.n.Free {
		c.pl.cond.Wait()
	} else {
		c.n.cond.Wait()
	}
}

func (c *Conn) broadcast() {
	if c.n.Free {
		c.pl.cond.Broadcast()
	} else {
		c.n.cond.Broadcast()
	}
}

// Conn is one endpoint of a simulated connection.
type Conn struct {
	pl            *pairLock
	n             *Net
	id            string
	side          string // "c" (dialer) or "s" (acceptor)
	local, remote string
	peer          *Conn
	in            *half // data travelling towards this endpoint
	closed        bool
	rdl, wdl      time.Time
	rtm, wtm      *time.Timer
	BytesIn       int64
	BytesOut      int64
}

func (c *Conn) ID() string { return c.id + "/" + c.side }

func (c *Conn) Read(p []byte) (int, error) {
	c.lock()
	defer c.unlock()
	for {
		if c.closed {
			return 0, net.ErrClosed
		}
		if c.in.rst {
			return 0, errReset
		}
		if len(c.in.ready) > 0 {
			k := copy(p, c.in.ready)
			c.in.ready = c.in.ready[k:]
			c.BytesIn += int64(k)
			c.broadcast() // writers waiting for buffer space
			return k, nil
		}
		if c.in.fin {
			return 0, io.EOF
		}
		if !c.rdl.IsZero() && !time.Now().Before(c.rdl) {
			return 0, &net.OpError{Op: "read", Net: "tcp", Err: os.ErrDeadlineExceeded}
		}
		if len(p) == 0 {
			return 0, nil
		}
		c.wait()
	}
}

func (c *Conn) Write(p []byte) (int, error) {
	n := c.n
	c.lock()
	defer c.unlock()
	out := c.peer.in
	written := 0
	for len(p) > 0 {
		if c.closed {
			return written, net.ErrClosed
		}
		if out.rst || c.in.rst {
			return written, errWReset
		}
		if out.finQueued {
			return written, errWReset
		}
		if n.Free && c.peer.closed {
			return written, errWReset
		}
		if !c.wdl.IsZero() && !time.Now().Before(c.wdl) {
			return written, &net.OpError{Op: "write", Net: "tcp", Err: os.ErrDeadlineExceeded}
		}
		if out.blackhole {
			// the bytes leave and are never delivered (Write never blocks: a goroutine
			// blocked here could hold a stdlib sync.Mutex that another goroutine wants, and a
			// goroutine waiting on a real mutex is not durably blocked for synctest)
			out.total += int64(len(p))
			c.BytesOut += int64(len(p))
			written += len(p)
			p = nil
			break
		}
		space := n.SendBuf - len(out.inflight) - len(out.ready)
		if space <= 0 {
			c.wait()
			continue
		}
		k := len(p)
		if k > space {
			k = space
		}
		if n.Free && !out.blackhole {
			out.ready = append(out.ready, p[:k]...)
		} else {
			out.inflight = append(out.inflight, p[:k]...)
		}
		out.total += int64(k)
		c.BytesOut += int64(k)
		p = p[k:]
		written += k
		c.broadcast()
		n.bumpLocked()
	}
	return written, nil
}

func (n *Net) bumpLocked() {
	select {
	case n.activity <- struct{}{}:
	default:
	}
}

// Close closes both directions (FIN towards the peer after in-flight data).
func (c *Conn) Close() error {
	n := c.n
	c.lock()
	defer c.unlock()
	if c.closed {
		return nil
	}
	c.closed = true
	out := c.peer.in
	out.finQueued = true
	if n.Free {
		out.fin = true
	}
	// unread data at a closing endpoint turns into a reset for the peer's writes
	if len(c.in.ready) > 0 || len(c.in.inflight) > 0 {
		c.in.ready, c.in.inflight = nil, nil
	}
	c.broadcast()
	n.bumpLocked()
	return nil
}

// CloseWrite half-closes the connection.
func (c *Conn) CloseWrite() error {
	n := c.n
	c.lock()
	defer c.unlock()
	out := c.peer.in
	out.finQueued = true
	if n.Free {
		out.fin = true
	}
	c.broadcast()
	n.bumpLocked()
	return nil
}

func (c *Conn) LocalAddr() net.Addr  { return tcpAddr(c.local) }
func (c *Conn) RemoteAddr() net.Addr { return tcpAddr(c.remote) }

func tcpAddr(s string) net.Addr {
	if a, err := net.ResolveTCPAddr("tcp", s); err == nil {
		return a
	}
	return Addr{s}
}

func (c *Conn) SetDeadline(t time.Time) error {
	c.SetReadDeadline(t)
	return c.SetWriteDeadline(t)
}

func (c *Conn) setDL(dl *time.Time, tm **time.Timer, t time.Time) {
	c.lock()
	defer c.unlock()
	*dl = t
	if *tm != nil {
		(*tm).Stop()
		*tm = nil
	}
	if !t.IsZero() {
		d := time.Until(t)
		if d <= 0 {
			c.broadcast()
			return
		}
		*tm = time.AfterFunc(d, func() {
			c.lock()
			c.broadcast()
			c.unlock()
		})
	}
}

func (c *Conn) SetReadDeadline(t time.Time) error  { c.setDL(&c.rdl, &c.rtm, t); return nil }
func (c *Conn) SetWriteDeadline(t time.Time) error { c.setDL(&c.wdl, &c.wtm, t); return nil }

// ---------------------------------------------------------------------------
// driver interface

// Event is something the driver can make happen next.
type Event struct {
	Kind string // "dial" | "data" | "fin" | "rst"
	Key  string // canonical identity: dial id, or conn id + direction
	Size int    // bytes in flight (data)
	dial *pendingDial
	to   *Conn // endpoint that receives
}

// Enabled lists the possible network events in canonical order.
func (n *Net) Enabled() []Event {
	n.mu.Lock()
	defer n.mu.Unlock()
	var evs []Event
	for _, d := range n.dials {
		if !d.done {
			if l := n.listeners[d.addr]; l != nil && l.Hang {
				continue // SYN black hole: only the dial timeout ends it
			}
			evs = append(evs, Event{Kind: "dial", Key: d.id, dial: d})
		}
	}
	for _, c := range n.conns { // c is the dialer side; both directions
		for _, ep := range []*Conn{c, c.peer} {
			h := ep.in
			if h.rst {
				continue
			}
			dir := "<" // towards the dialer
			if ep.side == "s" {
				dir = ">"
			}
			if len(h.inflight) > 0 && !h.blackhole {
				evs = append(evs, Event{Kind: "data", Key: c.id + dir, Size: len(h.inflight), to: ep})
			} else if h.finQueued && !h.fin && len(h.inflight) == 0 {
				evs = append(evs, Event{Kind: "fin", Key: c.id + dir, to: ep})
			} else if h.rstQueued {
				evs = append(evs, Event{Kind: "rst", Key: c.id + dir, to: ep})
			}
		}
	}
	sort.SliceStable(evs, func(i, j int) bool {
		if evs[i].Kind != evs[j].Kind {
			return evs[i].Kind < evs[j].Kind
		}
		return evs[i].Key < evs[j].Key
	})
	return evs
}

// Apply makes one event happen. For data events size bytes are delivered
// (0 or more than available = everything in flight).
func (n *Net) Apply(e Event, size int) {
	n.mu.Lock()
	defer n.mu.Unlock()
	switch e.Kind {
	case "dial":
		if !e.dial.done {
			n.removeDialLocked(e.dial)
			n.completeLocked(e.dial)
		}
	case "data":
		h := e.to.in
		if size <= 0 || size > len(h.inflight) {
			size = len(h.inflight)
		}
		if e.to.closed {
			// data arriving at a closed endpoint: dropped; a reset travels back to the
			// sender, behind whatever the closed side had sent before it closed
			h.inflight = nil
			e.to.peer.in.rstQueued = true
		} else {
			h.ready = append(h.ready, h.inflight[:size]...)
			h.inflight = h.inflight[size:]
			n.Delivered += int64(size)
		}
	case "fin":
		e.to.in.fin = true
	case "rst":
		e.to.in.rstQueued = false
		e.to.in.rst = true
	}
	n.cond.Broadcast()
}

// RefuseDial completes a pending dial with "connection refused".
func (n *Net) RefuseDial(e Event) {
	n.mu.Lock()
	defer n.mu.Unlock()
	if e.dial != nil && !e.dial.done {
		n.removeDialLocked(e.dial)
		e.dial.done, e.dial.err = true, ErrRefused
	}
	n.cond.Broadcast()
}

// Reset tears a connection down abruptly in both directions.
func (n *Net) Reset(c *Conn) {
	c.lock()
	defer c.unlock()
	c.in.rst, c.peer.in.rst = true, true
	c.in.inflight, c.peer.in.inflight = nil, nil
	c.broadcast()
}

// Blackhole makes everything sent towards ep from now on vanish.
func (n *Net) Blackhole(ep *Conn) {
	ep.lock()
	ep.in.blackhole = true
	ep.unlock()
}

// Conns returns the dialer-side endpoints of every connection ever made.
func (n *Net) Conns() []*Conn {
	n.mu.Lock()
	defer n.mu.Unlock()
	return append([]*Conn{}, n.conns...)
}

// Peer returns the other endpoint.
func (c *Conn) Peer() *Conn { return c.peer }

// InFlight reports bytes queued towards this endpoint.
func (c *Conn) InFlight() int {
	c.lock()
	defer c.unlock()
	return len(c.in.inflight)
}

// CloseAll closes every listener and resets every connection (teardown).
func (n *Net) CloseAll() {
	n.mu.Lock()
	for _, l := range n.listeners {
		l.closed = true
	}
	for _, c := range n.conns {
		if n.Free {
			c.pl.mu.Lock()
		}
		c.in.rst, c.peer.in.rst = true, true
		if n.Free {
			c.pl.cond.Broadcast()
			c.pl.mu.Unlock()
		}
	}
	for _, d := range n.dials {
		if !d.done {
			d.done, d.err = true, ErrRefused
		}
	}
	n.dials = nil
	n.cond.Broadcast()
	n.mu.Unlock()
}

// SentBy sums the bytes written so far by the dialer side of every connection
// (pending dials count one each) whose dial id starts with the given role.
func (n *Net) SentBy(role string) int64 {
	n.mu.Lock()
	defer n.mu.Unlock()
	var total int64
	for _, c := range n.conns {
		if len(c.id) > len(role) && c.id[:len(role)+1] == role+">" {
			if n.Free {
				c.pl.mu.Lock()
			}
			total += c.BytesOut + 1
			if n.Free {
				c.pl.mu.Unlock()
			}
		}
	}
	for _, d := range n.dials {
		if d.role == role {
			total++
		}
	}
	return total
}

// PendingDials reports unresolved dials (including those hanging).
func (n *Net) PendingDials() int {
	n.mu.Lock()
	defer n.mu.Unlock()
	return len(n.dials)
}
