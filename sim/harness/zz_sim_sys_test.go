package main

// System simulation: the real handler chain (buildHandler), the real
// http.Server (createHTTPServer), the real balancer, httputil.ReverseProxy and
// http.Transport run over the driver-mediated in-memory network (simnet)
// against scripted backends and raw clients. The root goroutine is the
// driver: at every step it waits for quiescence, enumerates what could happen
// next (a pending dial completes, in-flight bytes are delivered, a FIN
// arrives, a client starts its next exchange, a fault fires, a little time
// passes) and lets the run's choice source pick one.

import (
	"bufio"
	"bytes"
	"context"
	"fmt"
	"io"
	"log"
	"net"
	"net/http"
	"sort"
	"strconv"
	"strings"
	"sync"
	"time"

	"github.com/0xReLogic/Helios/internal/config"
	"github.com/0xReLogic/Helios/internal/loadbalancer"
	"vsim/simnet"
	"vsim/simrt"
)

// ---------------------------------------------------------------------------
// capture of net/http's own error log ("http: panic serving ...")

type logWatcher struct {
	mu     sync.Mutex
	panics []string
}

func (w *logWatcher) Write(p []byte) (int, error) {
	s := string(p)
	if strings.Contains(s, "panic serving") || strings.Contains(s, "panic:") {
		w.mu.Lock()
		if len(w.panics) < 5 {
			if len(s) > 400 {
				s = s[:400]
			}
			w.panics = append(w.panics, s)
		}
		w.mu.Unlock()
	}
	return len(p), nil
}

func (w *logWatcher) take() []string {
	w.mu.Lock()
	defer w.mu.Unlock()
	p := w.panics
	w.panics = nil
	return p
}

var stdLogWatcher = &logWatcher{}

// ---------------------------------------------------------------------------
// exchange scripts

type hdrKV struct{ K, V string }

type respStep struct {
	kind string // write | sleep | rst | close | hang
	n    int
	d    time.Duration
}

type respScript struct {
	status  int
	hdr     []hdrKV
	framing string // cl | chunked | close | none
	body    []byte
	steps   []respStep
	interim []int
	fault   string // "" | hang-headers | rst-after-headers | short-body | garbage | stall-mid-body | slow-body
	holdFor time.Duration
	closeAfter bool
	trailer []hdrKV // chunked framing only: announced in Trailer and sent after the last chunk
	headWrittenAt time.Duration // observed: when the backend wrote the response head
}

type seenReq struct {
	backend    string
	method     string
	target     string
	proto      string
	hdr        http.Header
	host       string
	body       []byte
	bodyErr    string
	at         time.Duration
	chunked    bool
	clen       int64
}

type frag struct {
	at time.Duration
	n  int
}

type gotResp struct {
	status  int
	proto   string
	hdr     http.Header
	body    []byte
	frags   []frag
	interim []int
	err     string // error while reading the response (after any partial data)
	clen    int64
	chunked bool
	closed  bool
	uncompressed bool
	headAt  time.Duration // when the final status line and headers had been read
	trailer http.Header
}

type exchange struct {
	id     int
	client int
	// request
	method   string
	target   string
	hdr      []hdrKV
	body     []byte
	chunked  bool
	pieces   []int // split of the body into writes
	newConn  bool
	host            string // Host header the client sends ("" = helios.test)
	headPause       time.Duration // the client pauses this long in the middle of the request head
	stallUpload     bool // at abortUploadAt the client stops sending but keeps its connection open
	abortUploadAt   int // -1: no
	abortDownloadAt int // -1: no; close after this many body bytes
	noRead   bool
	expect   string        // "" | "accept" | "decline": the client sends Expect: 100-continue and waits for the go-ahead; the backend sends 100 and reads the body / answers finally without reading it
	pause    time.Duration // the client waits this long before sending
	resp     *respScript
	// observed
	seen      []*seenReq
	writes    []frag // backend write instants (cumulative body bytes after each write)
	got       *gotResp
	startedAt time.Duration
	endedAt   time.Duration
	started   bool
	done      bool
	dialErr   string
	retried   bool // the client repeated the request on a new connection (see sClient.run)
}

// ---------------------------------------------------------------------------
// environment

type sysOpts struct {
	strategy  string
	nBackends int
	basePath  []string
	weights   []int
	passive   bool
	threshold int
	window    int
	active    bool
	interval  int
	ptimeout  int
	breaker   *config.CircuitBreakerConfig
	limiter   *config.RateLimitConfig
	plugins   []config.PluginConfig
	logging   config.LoggingConfig
	timeouts  config.TimeoutConfig
	free      bool
	wsPool    bool
}

type sBackend struct {
	env      *sysEnv
	name     string
	addr     string
	base     string
	ln       *simnet.Listener
	probeOK  bool
	probeSlow time.Duration
	arrivals int
	wsServing bool // an Upgrade request arrived here (scenario sysws)
	probes   int
	lastProbeAt time.Duration
	inflight int
	conns    []net.Conn
}

type sClient struct {
	env   *sysEnv
	id    int
	addr  string
	queue []*exchange
	next  int
	busy  bool
	start chan *exchange
	conn  net.Conn
	br    *bufio.Reader
	quit  chan struct{}
	// connMu guards conn/br: in the race tier a worker goroutine may still be inside run() when the
	// environment is closed and the client's own goroutine closes the connection
	connMu sync.Mutex
}

type sysEnv struct {
	wedged  bool // a lock wedge inside Helios was diagnosed: teardown must not take Helios locks
	done    chan struct{} // closed by close(): scripted peers stop sleeping (a goroutine still
	// asleep when the bubble's root returns is abandoned together with everything it references)
	x        *X
	net      *simnet.Net
	cfg      *config.Config
	lb       *loadbalancer.LoadBalancer
	srv      *http.Server
	handler  http.Handler
	backends []*sBackend
	clients  []*sClient
	mu       sync.Mutex
	exch     map[int]*exchange
	nextTok  int
	reached  int // requests that entered the balancer (counting plugin / wrapper)
	steps    int
	delays   int
	probeTr  *http.Transport
	stopped  bool
}

const heliosAddr = "192.0.2.254:8080"

func newSysEnv(x *X, o sysOpts) (*sysEnv, error) {
	env := &sysEnv{x: x, net: simnet.New(), exch: map[int]*exchange{}, done: make(chan struct{})}
	env.net.Free = o.free
	log.SetOutput(stdLogWatcher)
	stdLogWatcher.take()
	cfg := &config.Config{}
	cfg.Server.Port = 8080
	cfg.Server.Timeouts = o.timeouts
	cfg.LoadBalancer.Strategy = o.strategy
	cfg.LoadBalancer.WebSocketPool.Enabled = o.wsPool
	for i := 0; i < o.nBackends; i++ {
		addr := fmt.Sprintf("10.20.0.%d:80", i+1)
		base := ""
		if i < len(o.basePath) {
			base = o.basePath[i]
		}
		w := 1
		if i < len(o.weights) {
			w = o.weights[i]
		}
		b := &sBackend{env: env, name: fmt.Sprintf("b%d", i), addr: addr, base: base, probeOK: true}
		b.ln = env.net.Listen(addr)
		env.backends = append(env.backends, b)
		cfg.Backends = append(cfg.Backends, config.BackendConfig{Name: b.name, Address: "http://" + addr + base, Weight: w})
		go b.acceptLoop()
	}
	cfg.HealthChecks.Passive = config.PassiveHealthCheckConfig{Enabled: o.passive, UnhealthyThreshold: o.threshold, UnhealthyTimeout: o.window}
	cfg.HealthChecks.Active = config.ActiveHealthCheckConfig{Enabled: o.active, Interval: o.interval, Timeout: o.ptimeout, Path: "/healthz"}
	if o.breaker != nil {
		cfg.CircuitBreaker = *o.breaker
	}
	if o.limiter != nil {
		cfg.RateLimit = *o.limiter
	}
	cfg.Logging = o.logging
	cfg.Logging.Level = "fatal"
	if len(o.plugins) > 0 {
		cfg.Plugins.Enabled = true
		cfg.Plugins.Chain = o.plugins
	}
	env.cfg = cfg
	simrt.SetDialHook(func(ctx context.Context, network, addr string, timeout time.Duration) (net.Conn, error) {
		return env.net.Dial("helios", "192.0.2.254:0", addr, timeout, ctx.Done())
	})
	env.probeTr = &http.Transport{DialContext: func(ctx context.Context, network, addr string) (net.Conn, error) {
		return env.net.Dial("probe", "192.0.2.254:0", addr, 0, ctx.Done())
	}}
	simrt.SetProbeTransport(env.probeTr)
	lb, err := loadbalancer.NewLoadBalancer(cfg)
	if err != nil {
		return nil, err
	}
	env.lb = lb
	inner := http.Handler(lb)
	counted := http.HandlerFunc(func(w http.ResponseWriter, r *http.Request) {
		env.mu.Lock()
		env.reached++
		env.mu.Unlock()
		inner.ServeHTTP(w, r)
	})
	_ = counted
	h, err := buildHandler(cfg, lb)
	if err != nil {
		return nil, err
	}
	env.handler = h
	env.srv = createHTTPServer(cfg, h)
	ln := env.net.Listen(heliosAddr)
	go env.srv.Serve(ln)
	// Helios' own tickers (probes, cleanup) started at t=0 and fire on whole seconds. Everything
	// the harness schedules starts 137 ms later, so that a harness-made instant never ties with
	// a Helios tick: a `select` with two ready cases (tick vs shutdown) is decided by the Go
	// runtime's own random choice, which no seed controls.
	if !o.free {
		time.Sleep(137 * time.Millisecond)
	}
	return env, nil
}

func (env *sysEnv) addClient(addr string) *sClient {
	c := &sClient{env: env, id: len(env.clients), addr: addr, start: make(chan *exchange, 1), quit: make(chan struct{})}
	env.clients = append(env.clients, c)
	go c.loop()
	return c
}

func (env *sysEnv) newExchange(c *sClient) *exchange {
	env.mu.Lock()
	env.nextTok++
	ex := &exchange{id: env.nextTok, client: c.id, abortUploadAt: -1, abortDownloadAt: -1}
	env.exch[ex.id] = ex
	env.mu.Unlock()
	c.queue = append(c.queue, ex)
	return ex
}

// ---------------------------------------------------------------------------
// scripted backend

// wsBackendHook, when set, handles Upgrade requests at the scripted backends.
var wsBackendHook func(conn net.Conn, br *bufio.Reader, req *http.Request)

func (b *sBackend) acceptLoop() {
	for {
		c, err := b.ln.Accept()
		if err != nil {
			return
		}
		b.env.mu.Lock()
		b.conns = append(b.conns, c)
		b.env.mu.Unlock()
		go b.serve(c)
	}
}

func statusLine(code int) string {
	txt := http.StatusText(code)
	if txt == "" {
		txt = "Status"
	}
	return fmt.Sprintf("HTTP/1.1 %d %s\r\n", code, txt)
}

func (b *sBackend) serve(c net.Conn) {
	defer c.Close()
	env := b.env
	br := bufio.NewReader(c)
	for {
		req, err := http.ReadRequest(br)
		if err != nil {
			return
		}
		if req.Header.Get("Upgrade") != "" && wsBackendHook != nil {
			env.mu.Lock()
			b.wsServing = true
			env.mu.Unlock()
			wsBackendHook(c, br, req)
			return
		}
		tok, _ := strconv.Atoi(req.Header.Get("X-Sim-Token"))
		if tok == 0 {
			// a health probe (or anything unscripted)
			io.Copy(io.Discard, req.Body)
			env.mu.Lock()
			b.probes++
			b.lastProbeAt = env.x.Now()
			ok, slow := b.probeOK, b.probeSlow
			env.mu.Unlock()
			env.x.Logf("probe at %s t=%v ok=%v", b.name, env.x.Now(), ok)
			if slow > 0 {
				if !env.sleep(slow) {
					return
				}
			}
			if ok {
				io.WriteString(c, "HTTP/1.1 200 OK\r\nContent-Length: 2\r\nContent-Type: text/plain\r\n\r\nok")
			} else {
				io.WriteString(c, "HTTP/1.1 500 Internal Server Error\r\nContent-Length: 4\r\nContent-Type: text/plain\r\n\r\ndown")
			}
			continue
		}
		env.mu.Lock()
		ex := env.exch[tok]
		b.arrivals++
		b.inflight++
		env.mu.Unlock()
		sr := &seenReq{backend: b.name, method: req.Method, target: req.RequestURI, proto: req.Proto, hdr: req.Header.Clone(), host: req.Host, at: env.x.Now(),
			chunked: len(req.TransferEncoding) > 0 && req.TransferEncoding[0] == "chunked", clen: req.ContentLength}
		var body []byte
		var berr error
		switch {
		case ex != nil && ex.expect == "decline":
			// answers finally without asking for (or reading) the body; the connection ends
			sr.bodyErr = "not-read"
		case ex != nil && ex.expect == "accept":
			io.WriteString(c, "HTTP/1.1 100 Continue\r\n\r\n")
			body, berr = io.ReadAll(req.Body)
		default:
			body, berr = io.ReadAll(req.Body)
		}
		sr.body = body
		if berr != nil {
			sr.bodyErr = berr.Error()
		}
		env.mu.Lock()
		if ex != nil {
			ex.seen = append(ex.seen, sr)
		}
		env.mu.Unlock()
		env.x.Logf("arrive ex=%d at %s t=%v %s %s body=%d err=%q", tok, b.name, sr.at, sr.method, sr.target, len(body), sr.bodyErr)
		done := func() {
			env.mu.Lock()
			b.inflight--
			env.mu.Unlock()
		}
		if ex == nil || ex.resp == nil || berr != nil {
			done()
			if berr != nil {
				return
			}
			io.WriteString(c, "HTTP/1.1 200 OK\r\nContent-Length: 0\r\n\r\n")
			continue
		}
		keep := b.play(c, req, ex)
		done()
		if !keep {
			return
		}
	}
}

// play writes the scripted response. Returns false when the connection must end.
func (b *sBackend) play(c net.Conn, req *http.Request, ex *exchange) bool {
	env := b.env
	rs := ex.resp
	sc, _ := c.(*simnet.Conn)
	hang := func() {
		// until the peer goes away or the run ends
		buf := make([]byte, 1)
		for {
			if _, err := c.Read(buf); err != nil {
				return
			}
		}
	}
	if rs.holdFor > 0 {
		if !env.sleep(rs.holdFor) {
			return false
		}
	}
	switch rs.fault {
	case "hang-headers":
		hang()
		return false
	case "garbage":
		io.WriteString(c, "HTZP/9.9 2OO what\r\n\x00\xff\r\n\r\n")
		return false
	case "odd-status":
		// well-formed, but no status code a server may send: net/http's transport accepts it,
		// net/http's server refuses to write it (it panics, which ends this one exchange)
		io.WriteString(c, "HTTP/1.1 099 Odd\r\nContent-Length: 0\r\n\r\n")
		return true
	}
	for _, code := range rs.interim {
		io.WriteString(c, statusLine(code)+"Link: </style.css>; rel=preload\r\n\r\n")
	}
	var hb strings.Builder
	hb.WriteString(statusLine(rs.status))
	for _, kv := range rs.hdr {
		hb.WriteString(kv.K + ": " + kv.V + "\r\n")
	}
	bodyless := req.Method == "HEAD" || rs.status == 204 || rs.status == 304 || rs.status/100 == 1
	switch rs.framing {
	case "cl":
		n := len(rs.body)
		if rs.fault == "short-body" {
			n += 50
		}
		hb.WriteString(fmt.Sprintf("Content-Length: %d\r\n", n))
	case "chunked":
		if !bodyless {
			hb.WriteString("Transfer-Encoding: chunked\r\n")
			if len(rs.trailer) > 0 {
				var names []string
				for _, kv := range rs.trailer {
					names = append(names, kv.K)
				}
				hb.WriteString("Trailer: " + strings.Join(names, ", ") + "\r\n")
			}
		}
	case "close":
		hb.WriteString("Connection: close\r\n")
	}
	if rs.closeAfter && rs.framing != "close" {
		hb.WriteString("Connection: close\r\n")
	}
	hb.WriteString("\r\n")
	if _, err := io.WriteString(c, hb.String()); err != nil {
		return false
	}
	env.mu.Lock()
	rs.headWrittenAt = env.x.Now()
	env.mu.Unlock()
	if rs.fault == "rst-after-headers" {
		if sc != nil {
			env.net.Reset(sc)
		}
		return false
	}
	if bodyless {
		return rs.framing != "close" && !rs.closeAfter
	}
	sent := 0
	noteWrite := func() {
		env.mu.Lock()
		ex.writes = append(ex.writes, frag{env.x.Now(), sent})
		env.mu.Unlock()
	}
	writeSeg := func(p []byte) error {
		if len(p) == 0 {
			return nil
		}
		var err error
		if rs.framing == "chunked" {
			_, err = fmt.Fprintf(c, "%x\r\n%s\r\n", len(p), p)
		} else {
			_, err = c.Write(p)
		}
		sent += len(p)
		noteWrite()
		return err
	}
	rest := rs.body
	for _, st := range rs.steps {
		switch st.kind {
		case "write":
			n := st.n
			if n > len(rest) {
				n = len(rest)
			}
			if err := writeSeg(rest[:n]); err != nil {
				return false
			}
			rest = rest[n:]
		case "sleep":
			if !env.sleep(st.d) {
				return false
			}
		case "rst":
			if sc != nil {
				env.net.Reset(sc)
			}
			return false
		case "close":
			return false
		case "hang":
			hang()
			return false
		}
	}
	if err := writeSeg(rest); err != nil {
		return false
	}
	if rs.fault == "short-body" {
		return false
	}
	if rs.framing == "chunked" {
		tail := "0\r\n"
		for _, kv := range rs.trailer {
			tail += kv.K + ": " + kv.V + "\r\n"
		}
		if _, err := io.WriteString(c, tail+"\r\n"); err != nil {
			return false
		}
	}
	return rs.framing != "close" && !rs.closeAfter
}

// ---------------------------------------------------------------------------
// raw client

func (c *sClient) loop() {
	for {
		select {
		case ex := <-c.start:
			c.run(ex)
			c.env.mu.Lock()
			ex.done = true
			ex.endedAt = c.env.x.Now()
			c.busy = false
			c.env.mu.Unlock()
			c.env.net.Bump()
		case <-c.quit:
			c.connMu.Lock()
			if c.conn != nil {
				c.conn.Close()
			}
			c.connMu.Unlock()
			return
		}
	}
}

func (c *sClient) dropConn() {
	c.connMu.Lock()
	defer c.connMu.Unlock()
	if c.conn != nil {
		c.conn.Close()
		c.conn, c.br = nil, nil
	}
}

func buildRequestHead(ex *exchange) []byte {
	var b bytes.Buffer
	host := ex.host
	if host == "" {
		host = "helios.test"
	}
	fmt.Fprintf(&b, "%s %s HTTP/1.1\r\nHost: %s\r\n", ex.method, ex.target, host)
	for _, kv := range ex.hdr {
		b.WriteString(kv.K + ": " + kv.V + "\r\n")
	}
	fmt.Fprintf(&b, "X-Sim-Token: %d\r\n", ex.id)

	if ex.chunked {
		b.WriteString("Transfer-Encoding: chunked\r\n")
	} else if len(ex.body) > 0 || ex.method == "POST" || ex.method == "PUT" || ex.method == "PATCH" {
		fmt.Fprintf(&b, "Content-Length: %d\r\n", len(ex.body))
	}
	b.WriteString("\r\n")
	return b.Bytes()
}

// run performs one exchange. Like every real HTTP client it retries once on a
// fresh connection when a reused keep-alive connection turns out to be dead
// before a single response byte arrived.
func (c *sClient) run(ex *exchange) {
	env := c.env
	if ex.pause > 0 {
		if !env.sleep(ex.pause) {
			return
		}
	}
	env.mu.Lock()
	ex.started = true
	ex.startedAt = env.x.Now()
	env.mu.Unlock()
	if ex.newConn {
		c.dropConn()
	}
	reused := c.conn != nil
	c.runOnce(ex)
	if reused && ex.got != nil && ex.got.status == 0 && strings.HasPrefix(ex.got.err, "read-response:") && ex.abortUploadAt < 0 {
		env.x.Logf("client %d: stale keep-alive connection, retrying ex=%d on a new one", c.id, ex.id)
		c.dropConn()
		ex.got = nil
		// the retry is a new request as far as Helios is concerned: time bounds apply per attempt
		env.mu.Lock()
		ex.startedAt = env.x.Now()
		ex.retried = true
		env.mu.Unlock()
		c.runOnce(ex)
	}
}

func (c *sClient) runOnce(ex *exchange) {
	env := c.env
	c.connMu.Lock()
	have := c.conn != nil
	c.connMu.Unlock()
	if !have {
		conn, err := env.net.Dial(fmt.Sprintf("client%d", c.id), c.addr, heliosAddr, 0, c.quit)
		if err != nil {
			ex.dialErr = err.Error()
			return
		}
		c.connMu.Lock()
		c.conn, c.br = conn, bufio.NewReader(conn)
		c.connMu.Unlock()
	}
	c.connMu.Lock()
	conn, cbr := c.conn, c.br
	c.connMu.Unlock()
	if conn == nil {
		ex.dialErr = "connection closed under the client (environment is shutting down)"
		return
	}
	got := &gotResp{}
	// writer: head, then the body in pieces
	proceed := make(chan struct{})
	var proceedOnce sync.Once
	goAhead := func() { proceedOnce.Do(func() { close(proceed) }) }
	defer goAhead()
	wdone := make(chan struct{})
	go func() {
		defer close(wdone)
		head := buildRequestHead(ex)
		if ex.headPause > 0 && len(head) > 20 {
			// a slow client: the request head comes in two parts with a pause between them
			if _, err := conn.Write(head[:len(head)/2]); err != nil {
				return
			}
			if !env.sleep(ex.headPause) {
				return
			}
			head = head[len(head)/2:]
		}
		if _, err := conn.Write(head); err != nil {
			return
		}
		if ex.expect != "" {
			// like curl: wait for "100 Continue" (or a final answer), at most 600 ms, then send
			select {
			case <-proceed:
			case <-time.After(600 * time.Millisecond):
			}
			env.mu.Lock()
			final := got.status != 0
			env.mu.Unlock()
			if final {
				return // answered without wanting the body
			}
		}
		rest := ex.body
		sent := 0
		emit := func(p []byte) bool {
			if ex.abortUploadAt >= 0 && sent+len(p) > ex.abortUploadAt {
				k := ex.abortUploadAt - sent
				if k > 0 {
					if ex.chunked {
						fmt.Fprintf(conn, "%x\r\n%s\r\n", k, p[:k])
					} else {
						conn.Write(p[:k])
					}
				}
				if !ex.stallUpload {
					conn.Close() // client goes away mid-upload
				}
				return false // (stalled: it just never sends the rest)
			}
			var err error
			if ex.chunked {
				_, err = fmt.Fprintf(conn, "%x\r\n%s\r\n", len(p), p)
			} else {
				_, err = conn.Write(p)
			}
			sent += len(p)
			return err == nil
		}
		for _, n := range ex.pieces {
			if n > len(rest) {
				n = len(rest)
			}
			if n == 0 {
				continue
			}
			if !emit(rest[:n]) {
				return
			}
			rest = rest[n:]
		}
		if len(rest) > 0 && !emit(rest) {
			return
		}
		if ex.abortUploadAt >= 0 && ex.abortUploadAt >= len(ex.body) {
			return
		}
		if ex.chunked {
			io.WriteString(conn, "0\r\n\r\n")
		}
	}()
	ex.got = got
	if ex.noRead {
		<-wdone
		c.dropConn()
		return
	}
	// reader
	for {
		resp, err := http.ReadResponse(cbr, &http.Request{Method: ex.method})
		if err != nil {
			got.err = "read-response: " + err.Error()
			<-wdone
			c.dropConn()
			return
		}
		if resp.StatusCode/100 == 1 && resp.StatusCode != 101 {
			got.interim = append(got.interim, resp.StatusCode)
			if resp.StatusCode == 100 {
				goAhead()
			}
			continue
		}
		env.mu.Lock()
		got.status, got.proto, got.hdr = resp.StatusCode, resp.Proto, resp.Header.Clone()
		env.mu.Unlock()
		goAhead()
		got.headAt = env.x.Now()
		got.clen = resp.ContentLength
		got.chunked = len(resp.TransferEncoding) > 0 && resp.TransferEncoding[0] == "chunked"
		got.closed = resp.Close
		buf := make([]byte, 32<<10)
		for {
			n, rerr := resp.Body.Read(buf)
			if n > 0 {
				got.body = append(got.body, buf[:n]...)
				got.frags = append(got.frags, frag{env.x.Now(), len(got.body)})
				if ex.abortDownloadAt >= 0 && len(got.body) >= ex.abortDownloadAt {
					got.err = "client-aborted-download"
					c.dropConn()
					<-wdone
					return
				}
			}
			if rerr == io.EOF {
				got.trailer = resp.Trailer.Clone()
				break
			}
			if rerr != nil {
				got.err = "read-body: " + rerr.Error()
				<-wdone
				c.dropConn()
				return
			}
		}
		break
	}
	<-wdone
	if got.closed {
		c.dropConn()
	}
}

// ---------------------------------------------------------------------------
// the driver

type driveOpts struct {
	idleFor     time.Duration // keep the world running for this long even if no exchange is queued
	maxSteps    int
	fragment    bool          // deliver in-flight bytes in drawn fragments
	delays      bool          // draw small delivery delays
	maxVirtual  time.Duration // stop waiting after this much virtual time
	extra       func() []string        // extra (scenario) events currently possible
	applyExtra  func(name string)      // apply one
}

// drive runs the world until every queued exchange is done (or budgets end).
// Returns false if some exchange did not finish.
func (env *sysEnv) drive(o driveOpts) bool { return env.driveUntil(o, nil) }

// driveUntil is drive with an additional completion condition: the world keeps
// running until finished() is true (and every queued exchange is done).
func (env *sysEnv) driveUntil(o driveOpts, finished func() bool) bool {
	x := env.x
	c := x.C.Sub("net")
	if o.maxSteps == 0 {
		o.maxSteps = 4000
	}
	if o.maxVirtual == 0 {
		o.maxVirtual = 20 * time.Minute
	}
	deadline := time.Now().Add(o.maxVirtual)
	idleUntil := time.Now().Add(o.idleFor)
	if o.idleFor > 0 && idleUntil.After(deadline) {
		deadline = idleUntil
	}
	allDone := func() bool {
		if o.idleFor > 0 && time.Now().Before(idleUntil) {
			return false
		}
		env.mu.Lock()
		defer env.mu.Unlock()
		for _, cl := range env.clients {
			if cl.busy || cl.next < len(cl.queue) {
				return false
			}
		}
		if finished != nil {
			env.mu.Unlock()
			f := finished()
			env.mu.Lock()
			return f
		}
		return true
	}
	for step := 0; step < o.maxSteps; step++ {
		waitQuiet()
		evs := env.net.Enabled()
		type choiceEv struct {
			kind string
			ne   simnet.Event
			cl   *sClient
			name string
		}
		var alts []choiceEv
		var weights []int
		for _, e := range evs {
			alts = append(alts, choiceEv{kind: "net", ne: e})
			weights = append(weights, 6)
		}
		env.mu.Lock()
		for _, cl := range env.clients {
			if !cl.busy && cl.next < len(cl.queue) {
				alts = append(alts, choiceEv{kind: "start", cl: cl})
				weights = append(weights, 3)
			}
		}
		env.mu.Unlock()
		if o.extra != nil {
			for _, n := range o.extra() {
				alts = append(alts, choiceEv{kind: "extra", name: n})
				weights = append(weights, 1)
			}
		}
		if len(alts) == 0 {
			if allDone() {
				return true
			}
			// nothing can happen now: let virtual time run to the next timer
			if !time.Now().Before(deadline) {
				x.Logf("driver: virtual-time budget exhausted at t=%v", x.Now())
				return false
			}
			wait := time.Until(deadline)
			if o.idleFor > 0 && time.Now().Before(idleUntil) {
				wait = time.Until(idleUntil)
			}
			tm := time.NewTimer(wait)
			select {
			case <-env.net.Activity():
			case <-tm.C:
			}
			tm.Stop()
			continue
		}
		if o.delays && env.delays < 25 && len(evs) > 0 {
			alts = append(alts, choiceEv{kind: "delay"})
			weights = append(weights, 1)
		}
		if len(alts) > 1 {
			x.Nontrivial = true
		}
		k := 0
		if len(alts) > 1 {
			k = c.Pick(weights, "ev")
		}
		a := alts[k]
		env.steps++
		switch a.kind {
		case "net":
			size := 0
			if a.ne.Kind == "data" && o.fragment && a.ne.Size > 1 {
				switch c.Intn(4, "frag") {
				case 1:
					size = 1 + c.Intn(a.ne.Size, "fragsize")
				case 2:
					size = 1 + c.Intn(min(a.ne.Size, 16), "fragsmall")
				}
				if size > 0 && size < a.ne.Size {
					x.Fault("net-fragment")
				}
			}
			// log first: applying the event wakes goroutines that log on their own
			x.Logf("net %s %s %d/%d", a.ne.Kind, a.ne.Key, size, a.ne.Size)
			env.net.Apply(a.ne, size)
		case "start":
			cl := a.cl
			env.mu.Lock()
			ex := cl.queue[cl.next]
			cl.next++
			cl.busy = true
			env.mu.Unlock()
			x.Logf("start ex=%d client=%d %s %s", ex.id, cl.id, ex.method, ex.target)
			cl.start <- ex
		case "delay":
			env.delays++
			d := time.Duration(1+c.Intn(20, "delay-ms")) * time.Millisecond
			x.Fault("net-delay")
			x.Logf("delay %v", d)
			time.Sleep(d)
		case "extra":
			x.Logf("extra %s", a.name)
			o.applyExtra(a.name)
		}
	}
	x.Logf("driver: step budget exhausted")
	return allDone()
}

func min(a, b int) int {
	if a < b {
		return a
	}
	return b
}

// sleep waits d of virtual time; false if the run is being torn down meanwhile.
func (env *sysEnv) sleep(d time.Duration) bool {
	t := time.NewTimer(d)
	defer t.Stop()
	select {
	case <-t.C:
		return true
	case <-env.done:
		return false
	}
}

// close stops everything the run created.
func (env *sysEnv) close() {
	if env.stopped {
		return
	}
	env.stopped = true
	close(env.done)
	for _, cl := range env.clients {
		close(cl.quit)
	}
	if env.srv != nil {
		env.srv.Close()
	}
	if env.lb != nil && !env.wedged {
		// (after a diagnosed lock wedge Stop could wait for ever on the same locks; the stuck
		// goroutines are abandoned with the bubble instead)
		// Stop itself may be what is broken: never let the teardown hang on it (a goroutine stuck
		// in Stop is abandoned with the bubble; the scenario's own oracle has judged the run)
		stopped := make(chan struct{})
		go func() { env.lb.Stop(); close(stopped) }()
		select {
		case <-stopped:
		case <-time.After(time.Minute):
			env.x.Probe("teardown-stop-hung")
		}
	}
	env.net.CloseAll()
	if env.probeTr != nil {
		env.probeTr.CloseIdleConnections()
	}
	waitQuiet()
	// net/http lingers half a second on connections it closes after an error
	// (closeWriteAndWait); let those goroutines end inside the bubble
	time.Sleep(time.Second)
	waitQuiet()
	simrt.TeardownFree()
	log.SetOutput(io.Discard)
}

// hop-by-hop headers (RFC 9110 §7.6.1) plus what the hop itself regenerates
var hopHeaders = map[string]bool{"Connection": true, "Keep-Alive": true, "Proxy-Authenticate": true, "Proxy-Authorization": true, "Te": true, "Trailer": true, "Transfer-Encoding": true, "Upgrade": true, "Proxy-Connection": true}

func endToEnd(h map[string][]string, drop ...string) map[string][]string {
	out := map[string][]string{}
	named := map[string]bool{}
	for _, v := range h["Connection"] {
		for _, f := range strings.Split(v, ",") {
			named[http.CanonicalHeaderKey(strings.TrimSpace(f))] = true
		}
	}
	dropM := map[string]bool{}
	for _, d := range drop {
		dropM[http.CanonicalHeaderKey(d)] = true
	}
	for k, vs := range h {
		if hopHeaders[k] || named[k] || dropM[k] {
			continue
		}
		out[k] = append([]string{}, vs...)
	}
	return out
}

func diffHeaders(want, got map[string][]string) string {
	var d []string
	keys := map[string]bool{}
	for k := range want {
		keys[k] = true
	}
	for k := range got {
		keys[k] = true
	}
	ks := make([]string, 0, len(keys))
	for k := range keys {
		ks = append(ks, k)
	}
	sort.Strings(ks)
	for _, k := range ks {
		w, g := want[k], got[k]
		if strings.Join(w, "\x00") != strings.Join(g, "\x00") {
			switch {
			case len(w) == 0:
				d = append(d, fmt.Sprintf("+%s=%q", k, g))
			case len(g) == 0:
				d = append(d, fmt.Sprintf("-%s=%q", k, w))
			default:
				d = append(d, fmt.Sprintf("~%s: %q -> %q", k, w, g))
			}
		}
	}
	return strings.Join(d, "; ")
}

func diffKinds(want, got map[string][]string) string {
	kinds := map[string]bool{}
	for k, w := range want {
		g := got[k]
		if len(g) == 0 {
			kinds["dropped:"+k] = true
		} else if strings.Join(w, "\x00") != strings.Join(g, "\x00") {
			kinds["changed:"+k] = true
		}
	}
	for k := range got {
		if len(want[k]) == 0 {
			kinds["added:"+k] = true
		}
	}
	ks := make([]string, 0, len(kinds))
	for k := range kinds {
		ks = append(ks, k)
	}
	sort.Strings(ks)
	if len(ks) > 2 {
		// many headers at once (the whole head was lost or replaced): one fingerprint per set of
		// actions, not one per combination of header names
		acts := map[string]bool{}
		for _, k := range ks {
			acts[k[:strings.Index(k, ":")]] = true
		}
		var as []string
		for a := range acts {
			as = append(as, a)
		}
		sort.Strings(as)
		return "many:" + strings.Join(as, "+")
	}
	return strings.Join(ks, ",")
}
