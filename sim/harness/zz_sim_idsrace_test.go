package main

// Scenario "idsrace" (race-tier phase of C16, also part of C12's race tier): the
// request-ID / trace-ID middleware hammered by 8-32 free-running goroutines
// (the Go scheduler decides the interleaving, not the seed; the binary is built
// with -race). The micro scenario "ids" runs the same middleware under the
// cooperative scheduler, which only switches tasks at synchronisation points:
// state shared between two generations *without* a synchronisation point in
// between (a buffer handed out under a lock and read after it was released)
// is invisible there. Here it is not. Oracles: generated identifiers are
// pairwise distinct (across the run and across the worker's earlier runs:
// package-level generator state survives a run), the handler sees what the
// client gets (C16); race-detector reports touching Helios frames and panics (C12).

import (
	"fmt"
	"net/http"
	"strings"
	"sync"

	"github.com/0xReLogic/Helios/internal/config"
	"github.com/0xReLogic/Helios/internal/logging"
	"vsim/simrt"
)

func init() {
	register(&Scenario{Name: "idsrace", Props: []string{"C16", "C12"}, Kind: "system", Run: runIDsRace})
}

func runIDsRace(x *X) {
	c := x.C
	x.Nontrivial = true
	simrt.FreeYieldOnUnlock.Store(c.Intn(2, "yield-on-unlock") == 1)
	defer simrt.FreeYieldOnUnlock.Store(false)
	cfg := config.LoggingConfig{Level: "fatal"}
	cfg.RequestID.Enabled = c.Intn(6, "rid") != 0
	cfg.Trace.Enabled = c.Intn(6, "tid") != 0
	if !cfg.RequestID.Enabled && !cfg.Trace.Enabled {
		cfg.RequestID.Enabled = true
	}
	rh, th := logging.RequestHeaderName(cfg), logging.TraceHeaderName(cfg)
	nG := 8 + c.Intn(25, "goroutines")
	per := 100 + c.Intn(500, "per")
	if x.Tier == "thorough" && c.Intn(4, "long") == 0 {
		per = 2000 + c.Intn(2000, "per-long")
	}
	x.Sample["config"] = fmt.Sprintf("request_id=%v trace=%v goroutines=%d x %d requests (schedule: Go runtime, not seed-decided)", cfg.RequestID.Enabled, cfg.Trace.Enabled, nG, per)
	x.Logf("idsrace %s", x.Sample["config"])
	type pair struct{ hReq, hTrace, outReq, outTrace string }
	results := make([][]pair, nG)
	var panics []string
	var pmu sync.Mutex
	var wg sync.WaitGroup
	for g := 0; g < nG; g++ {
		g := g
		wg.Add(1)
		go func() {
			defer wg.Done()
			defer func() {
				if r := recover(); r != nil {
					pmu.Lock()
					panics = append(panics, fmt.Sprint(r))
					pmu.Unlock()
				}
			}()
			var cur pair
			inner := http.HandlerFunc(func(w http.ResponseWriter, r *http.Request) {
				cur.hReq, cur.hTrace = r.Header.Get(rh), r.Header.Get(th)
				w.WriteHeader(204)
			})
			hnd := logging.RequestContextMiddleware(cfg)(inner)
			for i := 0; i < per; i++ {
				r, _ := http.NewRequest("GET", "http://helios.test/", nil)
				rec := newRecorder()
				cur = pair{}
				hnd.ServeHTTP(rec, r)
				cur.outReq, cur.outTrace = rec.sentHdr.Get(rh), rec.sentHdr.Get(th)
				results[g] = append(results[g], cur)
			}
		}()
	}
	if !x.WaitFree(&wg, "C12", "generating identifiers") {
		return
	}
	x.Probe("race-run-completed")
	defer simrt.TeardownFree()
	pmu.Lock()
	for _, p := range panics {
		key := p
		if len(key) > 60 {
			key = key[:60]
		}
		x.Violate("C12", "C12/panic{"+key+"}", "a goroutine generating identifiers panicked: %s", p)
		x.Violate("C16", "C16/panic{"+key+"}", "a goroutine generating identifiers panicked: %s", p)
	}
	pmu.Unlock()
	seen := map[string]int{}
	total := 0
	dup, mismatch, missing := "", "", ""
	for _, rs := range results {
		for _, p := range rs {
			total++
			for _, kv := range []struct {
				kind     string
				on       bool
				h, out   string
			}{{"request-id", cfg.RequestID.Enabled, p.hReq, p.outReq}, {"trace-id", cfg.Trace.Enabled, p.hTrace, p.outTrace}} {
				if !kv.on {
					continue
				}
				if kv.out == "" {
					missing = kv.kind
					continue
				}
				if kv.h != kv.out && mismatch == "" {
					mismatch = fmt.Sprintf("%s: handler saw %q, client got %q", kv.kind, kv.h, kv.out)
				}
				seen[kv.kind+":"+kv.out]++
				if seen[kv.kind+":"+kv.out] == 2 && dup == "" {
					dup = kv.kind
				}
			}
		}
	}
	if missing != "" {
		x.Violate("C16", "C16/missing-on-response{"+missing+"}", "%s enabled but a response carried no identifier (%d goroutines in parallel)", missing, nG)
	}
	if mismatch != "" {
		x.Violate("C16", "C16/backend-client-mismatch{parallel}", "%d goroutines in parallel: %s", nG, mismatch)
	}
	if dup != "" {
		x.Violate("C16", "C16/duplicate-generated-id{parallel}", "a %s was generated twice among %d requests served by %d goroutines in parallel", dup, total, nG)
	} else {
		x.Probe("ids-generated-in-parallel")
	}
	for _, rep := range readNewRaceReports() {
		sites := raceSites(rep)
		if len(sites) == 0 {
			x.Probe("race-report-without-helios-frame")
			continue
		}
		short := rep
		if len(short) > 1500 {
			short = short[:1500]
		}
		x.Violate("C12", "C12/race{"+strings.Join(uniqStrings(sites), "+")+"}", "data race between %v (identifier generation):\n%s", sites, short)
		// a data race inside the generator is how identifiers come to repeat: under the property
		// itself it is reported as what it is, without waiting for the repeat to be drawn
		x.Violate("C16", "C16/race-in-generator{"+strings.Join(uniqStrings(sites), "+")+"}", "data race between %v while %d goroutines generate identifiers in parallel (uniqueness rests on this code being race-free):\n%s", sites, nG, short)
	}
}
