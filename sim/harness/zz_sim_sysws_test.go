package main

// Scenario "sysws": WebSocket (Upgrade) tunnelling through every plugin chain
// (tunnel part of C20). A raw client upgrades through the real server; the
// scripted backend answers 101; both ends then send drawn chunks in a drawn
// interleaving with network fragmentation and delays; one side closes at a
// drawn point. Oracle: each side's received stream is a prefix of what the
// other side sent and equals it for everything sent before the close; the
// surviving side sees the connection end within bounded virtual time.

import (
	"strings"
	"bufio"
	"bytes"
	"fmt"
	"io"
	"net"
	"net/http"
	"sync"
	"time"

	"github.com/0xReLogic/Helios/internal/config"
	"github.com/0xReLogic/Helios/internal/logging"
)

func init() {
	register(&Scenario{Name: "sysws", Props: []string{"C20", "C16", "C13", "C05"}, Kind: "system", Run: runSysWS})
}

type wsEnd struct {
	mu     sync.Mutex
	conn   net.Conn
	recv   []byte
	sent   []byte
	eofAt  time.Duration
	eof    bool
	ready  bool
}

func (e *wsEnd) readLoop(x *X, r io.Reader) {
	buf := make([]byte, 32<<10)
	for {
		n, err := r.Read(buf)
		e.mu.Lock()
		if n > 0 {
			e.recv = append(e.recv, buf[:n]...)
		}
		if err != nil {
			e.eof, e.eofAt = true, x.Now()
			conn := e.conn
			e.mu.Unlock()
			// a peer that sees the end of the stream closes its own side too (ReverseProxy
			// propagates a clean EOF as a half-close and waits for the other direction)
			if conn != nil {
				conn.Close()
			}
			return
		}
		e.mu.Unlock()
	}
}

func runSysWS(x *X) {
	c := x.C
	var parts []config.PluginConfig
	if c.Intn(2, "p-logging") == 1 {
		parts = append(parts, config.PluginConfig{Name: "logging"})
	}
	if c.Intn(2, "p-size") == 1 {
		parts = append(parts, config.PluginConfig{Name: "size_limit", Config: map[string]interface{}{"max_request_body": 1024, "max_response_body": 4096}})
	}
	if c.Intn(2, "p-gzip") == 1 {
		parts = append(parts, config.PluginConfig{Name: "gzip", Config: map[string]interface{}{"level": 6.0, "min_size": 0.0, "content_types": []interface{}{"text/"}}})
	}
	if c.Intn(2, "p-headers") == 1 {
		parts = append(parts, config.PluginConfig{Name: "headers", Config: map[string]interface{}{"set": map[string]interface{}{"X-App": "Helios"}}})
	}
	if c.Intn(2, "p-auth") == 1 {
		parts = append(parts, config.PluginConfig{Name: "custom-auth", Config: map[string]interface{}{"apiKey": "k"}})
	}
	if c.Intn(2, "p-reqid") == 1 {
		parts = append(parts, config.PluginConfig{Name: "request-id"})
	}
	var chain []config.PluginConfig
	for len(parts) > 0 {
		k := c.Intn(len(parts), "chain-pos")
		chain = append(chain, parts[k])
		parts = append(parts[:k], parts[k+1:]...)
	}
	var names []string
	hasReqIDPlugin := false
	for _, p := range chain {
		names = append(names, p.Name)
		if p.Name == "request-id" {
			hasReqIDPlugin = true
		}
	}
	o := sysOpts{strategy: strategies[c.Intn(5, "strategy")], nBackends: 1 + c.Intn(2, "nbackends"), plugins: chain, wsPool: c.Intn(2, "wspool") == 1}
	o.timeouts = config.TimeoutConfig{Read: 5, Write: 5, Idle: 30, BackendRead: 5, Handler: 1 + c.Intn(5, "handler-timeout")}
	// the handshake's Connection header is a token list (RFC 9110 7.6.1); browsers differ
	connHdr := []string{"Upgrade", "upgrade", "keep-alive, Upgrade", "Upgrade, keep-alive", "Keep-Alive,upgrade"}[c.Intn(5, "conn-header")]
	// the protocol token is case-insensitive, and WebSocket is not the only protocol a connection can be upgraded to
	upProto := []string{"websocket", "websocket", "WebSocket", "WEBSOCKET", "mqtt", "x-tunnel/1.0"}[c.Intn(6, "upgrade-token")]
	earlyHints := c.Intn(5, "early-hints-before-101") == 0
	upEcho := upProto
	if c.Intn(3, "echo-lower") == 0 {
		upEcho = strings.ToLower(upProto)
	}
	// quiet periods inside the session: longer than every configured timeout
	idles := c.Intn(3, "idles")
	o.logging.RequestID.Enabled = c.Intn(2, "rid") == 1
	o.logging.Trace.Enabled = c.Intn(2, "tid") == 1
	suppliedID := ""
	if c.Intn(3, "client-id") == 0 {
		suppliedID = "ws-client-id-42"
	}
	env, err := newSysEnv(x, o)
	if err != nil {
		panic(err)
	}
	defer env.close()
	x.Sample["config"] = fmt.Sprintf("chain=%v strategy=%s backends=%d request_id=%v connection=%q handler_timeout=%d idles=%d", names, o.strategy, o.nBackends, o.logging.RequestID.Enabled, connHdr, o.timeouts.Handler, idles)
	x.Logf("sysws %s", x.Sample["config"])
	client, backend := &wsEnd{}, &wsEnd{}
	// the scripted backends answer an Upgrade request themselves
	var backendHdr, clientHdr http.Header
	wsBackendHook = func(conn net.Conn, br *bufio.Reader, req *http.Request) {
		backend.mu.Lock()
		backendHdr = req.Header.Clone()
		backend.mu.Unlock()
		if earlyHints {
			// an informational response before the switch (a backend behind its own gateway): it is
			// relayed, and then the 101 -- nothing else may appear on the client's connection
			io.WriteString(conn, "HTTP/1.1 103 Early Hints\r\nLink: </app.css>; rel=preload\r\n\r\n")
		}
		io.WriteString(conn, "HTTP/1.1 101 Switching Protocols\r\nUpgrade: "+upEcho+"\r\nConnection: Upgrade\r\nSec-WebSocket-Accept: s3pPLMBiTxaQ9kYGzzhZRbK+xOo=\r\n\r\n")
		backend.mu.Lock()
		backend.conn, backend.ready = conn, true
		backend.mu.Unlock()
		backend.readLoop(x, br)
	}
	defer func() { wsBackendHook = nil }()
	var upgradeErr string
	idLine := ""
	if suppliedID != "" {
		idLine = logging.RequestHeaderName(env.cfg.Logging) + ": " + suppliedID + "\r\n" + logging.TraceHeaderName(env.cfg.Logging) + ": " + suppliedID + "-t\r\n"
	}
	go func() {
		conn, err := env.net.Dial("wsclient", "198.51.100.60:42000", heliosAddr, 0, nil)
		if err != nil {
			upgradeErr = err.Error()
			return
		}
		io.WriteString(conn, "GET /ws/chat?room=1 HTTP/1.1\r\nHost: helios.test\r\nUpgrade: "+upProto+"\r\nConnection: "+connHdr+"\r\nSec-WebSocket-Key: dGhlIHNhbXBsZSBub25jZQ==\r\nSec-WebSocket-Version: 13\r\nX-API-Key: k\r\nAccept-Encoding: gzip\r\n"+idLine+"\r\n")
		br := bufio.NewReader(conn)
		resp, err := http.ReadResponse(br, &http.Request{Method: "GET"})
		for err == nil && resp.StatusCode >= 102 && resp.StatusCode < 200 {
			resp, err = http.ReadResponse(br, &http.Request{Method: "GET"}) // (informational: the real answer follows)
		}
		if err != nil {
			upgradeErr = "read 101: " + err.Error()
			conn.Close()
			return
		}
		if resp.StatusCode != 101 {
			upgradeErr = fmt.Sprintf("status %d", resp.StatusCode)
			conn.Close()
			return
		}
		client.mu.Lock()
		clientHdr = resp.Header.Clone()
		client.conn, client.ready = conn, true
		client.mu.Unlock()
		client.readLoop(x, br)
	}()
	// messages
	mk := func(label string) [][]byte {
		n := 1 + c.Intn(6, label+"-n")
		var out [][]byte
		for i := 0; i < n; i++ {
			var sz int
			switch c.Intn(6, label+"-size") {
			case 0:
				sz = 0
			case 1:
				sz = 1 + c.Intn(125, label+"-sz")
			case 2:
				sz = 126 + c.Intn(4000, label+"-sz")
			case 3:
				sz = 65536 + c.Intn(100, label+"-sz")
			case 4:
				sz = c.Intn(100<<10, label+"-sz")
			case 5:
				sz = 32 << 10
			}
			b := make([]byte, sz)
			seed := uint32(c.Intn(1<<16, label+"-seed")) + 7
			for j := range b {
				seed = seed*1664525 + 1013904223
				b[j] = byte(seed >> 24) // binary frames: every byte value
			}
			out = append(out, b)
		}
		return out
	}
	cMsgs, bMsgs := mk("c"), mk("b")
	ci, bi := 0, 0
	closer := c.Intn(3, "closer") // 0 client, 1 backend, 2 client after everything
	closeAfter := c.Intn(len(cMsgs)+len(bMsgs)+1, "close-after")
	writes, closed, cutSeen := 0, false, false
	removeServing := o.nBackends == 2 && c.Intn(5, "remove-serving-backend") == 0
	poolChanged := false
	extra := func() []string {
		client.mu.Lock()
		backend.mu.Lock()
		ready := client.ready && backend.ready
		backend.mu.Unlock()
		client.mu.Unlock()
		if !ready || closed {
			return nil
		}
		var evs []string
		if writes >= closeAfter || (ci >= len(cMsgs) && bi >= len(bMsgs)) {
			return []string{"close"}
		}
		if idles > 0 {
			evs = append(evs, "idle")
		}
		if removeServing {
			evs = append(evs, "remove-backend")
		}
		if ci < len(cMsgs) {
			evs = append(evs, "c-write")
		}
		if bi < len(bMsgs) {
			evs = append(evs, "b-write")
		}
		return evs
	}
	apply := func(name string) {
		switch name {
		case "c-write":
			client.conn.Write(cMsgs[ci])
			client.sent = append(client.sent, cMsgs[ci]...)
			ci++
			writes++
		case "b-write":
			backend.conn.Write(bMsgs[bi])
			backend.sent = append(backend.sent, bMsgs[bi]...)
			bi++
			writes++
		case "idle":
			idles--
			d := []time.Duration{1500 * time.Millisecond, 7 * time.Second, 45 * time.Second}[c.Intn(3, "idle-for")]
			x.Fault("session-idle")
			time.Sleep(d)
			client.mu.Lock()
			backend.mu.Lock()
			cut := client.eof || backend.eof
			backend.mu.Unlock()
			client.mu.Unlock()
			if cut && !cutSeen {
				cutSeen = true
				x.Violate("C20", "C20/session-cut-by-helios", "after %v of silence in an open session (Connection: %s, handler timeout %ds) one end saw its connection closed although neither side had closed", d, connHdr, o.timeouts.Handler)
			}
		case "remove-backend":
			// the operator takes the backend that carries this session out of the pool: no new requests
			// for it -- the session that is established goes on until one of its ends closes it
			removeServing = false
			for _, b := range env.backends {
				env.mu.Lock()
				serving := b.wsServing
				env.mu.Unlock()
				if serving {
					poolChanged = true
					env.lb.RemoveBackend(b.name)
					x.Fault("serving-backend-removed-mid-session")
				}
			}
		case "close":
			closed = true
			if closer == 1 {
				backend.conn.Close()
			} else {
				client.conn.Close()
			}
		}
	}
	// a placeholder exchange keeps the driver alive until the tunnel is closed
	done := false
	env.driveUntil(driveOpts{fragment: true, delays: true, maxVirtual: 5 * time.Minute, extra: extra, applyExtra: apply}, func() bool {
		if upgradeErr != "" {
			return true
		}
		if !closed {
			return false
		}
		client.mu.Lock()
		backend.mu.Lock()
		d := client.eof && backend.eof
		backend.mu.Unlock()
		client.mu.Unlock()
		done = d
		return d
	})
	for _, p := range stdLogWatcher.take() {
		x.Violate("C03", "C03/panic-serving", "net/http reported: %s", p)
	}
	if upgradeErr != "" {
		kind := upgradeErr
		if i := strings.Index(kind, ":"); i > 0 {
			kind = kind[:i]
		}
		x.Violate("C20", "C20/upgrade-failed{"+kind+"}", "the Upgrade request did not get a 101 through chain %v: %s", names, upgradeErr)
		return
	}
	x.Probe("tunnel-established")
	client.mu.Lock()
	backend.mu.Lock()
	defer client.mu.Unlock()
	defer backend.mu.Unlock()
	// C16 on the 101 response: it is a response like any other
	for _, f := range []struct {
		kind    string
		enabled bool
		name    string
		sent    string
	}{{"request-id", o.logging.RequestID.Enabled, logging.RequestHeaderName(env.cfg.Logging), suppliedID}, {"trace-id", o.logging.Trace.Enabled, logging.TraceHeaderName(env.cfg.Logging), suppliedID}} {
		if f.kind == "request-id" && hasReqIDPlugin {
			continue // the example request-id plugin overwrites X-Request-ID by design: outside C16
		}
		sent := f.sent
		if sent != "" && f.kind == "trace-id" {
			sent += "-t"
		}
		atClient, atBackend := clientHdr.Get(f.name), backendHdr.Get(f.name)
		if !f.enabled {
			if atBackend != sent || (sent == "" && atClient != "") {
				x.Violate("C16", "C16/disabled-but-touched{"+f.kind+",upgrade}", "%s propagation is disabled but on the Upgrade exchange the client sent %q, the backend saw %q and the 101 carried %q", f.kind, sent, atBackend, atClient)
			}
			continue
		}
		if atClient == "" {
			x.Violate("C16", "C16/missing-on-response{"+f.kind+",upgrade}", "the 101 Switching Protocols response carries no %s header (backend saw %q)", f.name, atBackend)
			continue
		}
		if atClient != atBackend {
			x.Violate("C16", "C16/backend-client-mismatch{"+f.kind+",upgrade}", "Upgrade exchange: backend saw %s %q, the 101 carried %q", f.name, atBackend, atClient)
		}
		if sent != "" && atClient != sent {
			x.Violate("C16", "C16/client-id-altered{"+f.kind+",upgrade}", "Upgrade exchange: client supplied %s %q, the 101 carried %q", f.name, sent, atClient)
		}
	}
	if !closed {
		x.Violate("C20", "C20/tunnel-stuck", "the tunnel never became ready for traffic")
		return
	}
	survivor, other, sname := backend, client, "backend"
	if closer == 1 {
		survivor, other, sname = client, backend, "client"
	}
	// the survivor received everything the closer sent before closing
	if !bytes.Equal(survivor.recv, other.sent) {
		x.Violate("C20", "C20/bytes-lost-or-altered{towards-"+sname+"}", "%s received %d bytes, the other side had sent %d before closing (first difference at %d)", sname, len(survivor.recv), len(other.sent), firstDiff(survivor.recv, other.sent))
	}
	// the closer received a prefix of what the survivor sent
	if len(other.recv) > len(survivor.sent) || !bytes.Equal(other.recv, survivor.sent[:len(other.recv)]) {
		x.Violate("C20", "C20/bytes-lost-or-altered{prefix}", "the closing side received %d bytes which are not a prefix of the %d bytes sent to it (first difference at %d)", len(other.recv), len(survivor.sent), firstDiff(other.recv, survivor.sent))
	}
	if !done || !survivor.eof {
		x.Violate("C20", "C20/close-not-propagated{to-"+sname+"}", "one side closed the tunnel and the %s still had an open connection several simulated minutes later", sname)
	}
	// ---- C13: a WebSocket session is a request like any other for the accounting ------------
	if done && x.Want("C13") {
		client.mu.Unlock()
		backend.mu.Unlock()
		waitQuiet()
		m := env.lb.GetMetricsCollector().GetMetrics()
		if m.SuccessfulRequests+m.FailedRequests+m.RateLimitedRequests != m.TotalRequests {
			x.Violate("C13", "C13/classes-do-not-add-up{websocket}", "after one WebSocket session (closed on both sides): successful(%d)+failed(%d)+rate_limited(%d) != total_requests(%d)", m.SuccessfulRequests, m.FailedRequests, m.RateLimitedRequests, m.TotalRequests)
		}
		var perBackend uint64
		for name, bm := range m.BackendMetrics {
			perBackend += bm.TotalRequests
			if bm.ActiveConnections != 0 {
				x.Violate("C13", "C13/gauge-metrics{websocket}", "backend %s: metrics active_connections=%d after the tunnel was closed", name, bm.ActiveConnections)
			}
		}
		if perBackend != 1 {
			x.Violate("C13", "C13/per-backend-total{websocket}", "one Upgrade request was sent to a backend; the per-backend totals add up to %d", perBackend)
		}
		for _, bi := range env.lb.ListBackends() {
			if bi.ActiveConnections != 0 {
				x.Violate("C13", "C13/gauge-admin{websocket}", "backend %s: active_connections=%d after the tunnel was closed", bi.Name, bi.ActiveConnections)
			}
		}
		x.Probe("ws-accounting-checked")
		client.mu.Lock()
		backend.mu.Lock()
	}
	// ---- C05: a finished tunnel leaves no trace in the in-flight counts ---------------------------
	// After the session is over, one slow request is held in flight and a second one arrives: under
	// least_connections with two backends it goes to the other backend.
	if done && x.Want("C05") && o.strategy == "least_connections" && o.nBackends == 2 && !poolChanged {
		client.mu.Unlock()
		backend.mu.Unlock()
		waitQuiet()
		c1, c2 := env.addClient("198.51.100.61:42001"), env.addClient("198.51.100.62:42002")
		mk := func(cl *sClient, target string, hold time.Duration) *exchange {
			ex := env.newExchange(cl)
			ex.method, ex.target = "GET", target
			ex.hdr = append(ex.hdr, hdrKV{"X-API-Key", "k"})
			ex.resp = &respScript{status: 200, framing: "cl", hdr: []hdrKV{{"Content-Type", "application/octet-stream"}}, body: []byte("after the tunnel")}
			if hold > 0 {
				ex.resp.steps = []respStep{{kind: "sleep", d: hold}}
			}
			return ex
		}
		held := mk(c1, "/held", 3*time.Second)
		second := mk(c2, "/second", 0)
		second.pause = 500 * time.Millisecond
		env.drive(driveOpts{maxVirtual: time.Minute})
		if len(held.seen) == 1 && len(second.seen) == 1 && second.seen[0].at < held.seen[0].at+3*time.Second {
			x.Probe("lc-after-tunnel-checked")
			if held.seen[0].backend == second.seen[0].backend {
				x.Violate("C05", "C05/lc-not-minimal{after-a-finished-tunnel}", "after a WebSocket session had ended, a request was held in flight on %s and the next request was sent to %s as well although the other backend was idle (least_connections, 2 backends)", held.seen[0].backend, second.seen[0].backend)
			}
		}
		client.mu.Lock()
		backend.mu.Lock()
	}
	x.State(fmt.Sprint(names), fmt.Sprint(closer))
}

func firstDiff(a, b []byte) int {
	n := len(a)
	if len(b) < n {
		n = len(b)
	}
	for i := 0; i < n; i++ {
		if a[i] != b[i] {
			return i
		}
	}
	return n
}
