package main

// Scenario "sysrace": the race tier of C12. The binary is built with -race;
// the network is in free-delivery mode (no driver, no synctest.Wait between
// operations — both would add happens-before edges that hide races). 8-64
// goroutines run a drawn mix of client traffic with faults, admin mutations,
// /metrics, /health and /v1/backends readers, health transitions, breaker and
// limiter activity, and a shutdown at the end. The workload is seed-determined;
// the schedule is the Go scheduler's (stated in the evidence). Oracle: race
// reports whose stacks touch Helios frames (fingerprint = the two sites), any
// non-ErrAbortHandler panic, goroutines left waiting on Helios locks.

import (
	"bytes"
	"encoding/json"
	"fmt"
	"net/http"
	"os"
	"regexp"
	"sort"
	"strings"
	"sync"
	"time"

	"github.com/0xReLogic/Helios/internal/adminapi"
	"github.com/0xReLogic/Helios/internal/config"
	"vsim/simrt"
)

func init() {
	register(&Scenario{Name: "sysrace", Props: []string{"C12", "C13", "C06", "C15"}, Kind: "system", Run: runSysRace})
}

var raceLogOffset int64

// readNewRaceReports returns the race reports written since the last call.
func readNewRaceReports() []string {
	base := os.Getenv("VSIM_RACE_LOG")
	if base == "" {
		return nil
	}
	path := fmt.Sprintf("%s.%d", base, os.Getpid())
	data, err := os.ReadFile(path)
	if err != nil || int64(len(data)) <= raceLogOffset {
		return nil
	}
	chunk := string(data[raceLogOffset:])
	raceLogOffset = int64(len(data))
	var reps []string
	for _, r := range strings.Split(chunk, "==================") {
		if strings.Contains(r, "DATA RACE") {
			reps = append(reps, r)
		}
	}
	return reps
}

var frameRe = regexp.MustCompile(`(?m)^\s+(\S+?/(internal|cmd/helios)/[^\s:]+\.go):(\d+)`)

// raceSites extracts, for each of the two accesses of a report, the innermost
// Helios frame (file:line).
func raceSites(report string) []string {
	blocks := regexp.MustCompile(`(?m)^(Read|Write|Previous read|Previous write|Atomic read|Atomic write|Previous atomic read|Previous atomic write) at `).Split(report, -1)
	var sites []string
	for _, b := range blocks[1:] {
		// stop at the goroutine-creation part of the block
		if i := strings.Index(b, "Goroutine "); i >= 0 {
			b = b[:i]
		}
		for _, m := range frameRe.FindAllStringSubmatch(b, -1) {
			f := m[1]
			if strings.Contains(f, "/vsim/") || strings.HasSuffix(f, "_test.go") || strings.Contains(f, "/sim/") {
				continue
			}
			if i := strings.Index(f, "/internal/"); i >= 0 {
				f = f[i+1:]
			} else if i := strings.Index(f, "/cmd/"); i >= 0 {
				f = f[i+1:]
			}
			sites = append(sites, f+":"+m[3])
			break
		}
	}
	sort.Strings(sites)
	return sites
}

func runSysRace(x *X) {
	c := x.C
	o := sysOpts{strategy: strategies[c.Intn(5, "strategy")], nBackends: 2 + c.Intn(3, "nbackends"), free: true}
	o.timeouts = config.TimeoutConfig{Read: 30, Write: 30, Idle: 30, BackendRead: 10, BackendDial: 5, Handler: 60, Shutdown: 5}
	if c.Intn(3, "passive") != 0 {
		o.passive, o.threshold, o.window = true, 1+c.Intn(3, "threshold"), 1+c.Intn(3, "window")
	}
	if c.Intn(2, "active") == 1 {
		o.active, o.interval, o.ptimeout = true, 2, 1
		if o.window == 0 {
			o.window = 2
		}
	}
	if c.Intn(2, "breaker") == 1 {
		// low thresholds and several trials: state changes by different goroutines follow each other closely
		o.breaker = &config.CircuitBreakerConfig{Enabled: true, MaxRequests: 1 + c.Intn(3, "mr"), IntervalSeconds: 30, TimeoutSeconds: 1, FailureThreshold: 1 + c.Intn(3, "ft"), SuccessThreshold: 1 + c.Intn(2, "st")}
		if o.breaker.SuccessThreshold > o.breaker.MaxRequests {
			o.breaker.MaxRequests = o.breaker.SuccessThreshold
		}
	}
	if c.Intn(2, "limiter") == 1 {
		o.limiter = &config.RateLimitConfig{Enabled: true, MaxTokens: 5 + c.Intn(20, "tokens"), RefillRate: 1}
	}
	if c.Intn(2, "wspool") == 1 {
		o.wsPool = true
	}
	withGzip := false
	if c.Intn(2, "plugins") == 1 {
		o.plugins = []config.PluginConfig{{Name: "logging"}, {Name: "size_limit", Config: map[string]interface{}{"max_request_body": 1 << 20, "max_response_body": 1 << 20}}}
		// (the compressor holds per-response state and may hold shared state: several responses go
		// through it at the same time)
		if c.Intn(2, "p-gzip") == 1 {
			withGzip = true
			o.plugins = append(o.plugins, config.PluginConfig{Name: "gzip", Config: map[string]interface{}{"level": 6.0, "min_size": 0.0, "content_types": []interface{}{"text/"}}})
		}
	}
	o.logging.RequestID.Enabled = true
	env, err := newSysEnv(x, o)
	if err != nil {
		panic(err)
	}
	defer env.close()
	// in half of the runs every goroutine gives up the processor right after releasing a lock
	simrt.FreeYieldOnUnlock.Store(c.Intn(2, "yield-on-unlock") == 1)
	defer simrt.FreeYieldOnUnlock.Store(false)
	mux := adminapi.NewMux(env.lb, env.cfg, env.lb.GetMetricsCollector())
	mc := env.lb.GetMetricsCollector()
	nG := 8 + c.Intn(17, "goroutines")
	if x.Tier == "thorough" {
		nG = 8 + c.Intn(57, "goroutines64")
	}
	// pace of the workers: fast bursts, or slow enough for unhealthy windows, breaker timeouts
	// and probe intervals to elapse in the middle of the mix (virtual time costs nothing)
	pace := []time.Duration{10 * time.Millisecond, 10 * time.Millisecond, 150 * time.Millisecond, 400 * time.Millisecond}[c.Intn(4, "pace")]
	type op struct {
		kind string
		ex   *exchange
		body string
		path string
	}
	var wg sync.WaitGroup
	descr := map[string]int{}
	for g := 0; g < nG; g++ {
		role := c.Pick([]int{6, 2, 2}, "role") // 0 traffic, 1 admin, 2 reader
		var cl *sClient
		if role == 0 {
			cl = env.addClient(fmt.Sprintf("198.51.100.%d:4%04d", 100+g%100, g))
		}
		n := 2 + c.Intn(6, "nops")
		var ops []op
		for i := 0; i < n; i++ {
			switch role {
			case 0:
				ex := env.newExchange(cl)
				ex.method, ex.target = []string{"GET", "POST"}[c.Intn(2, "method")], fmt.Sprintf("/r/%d/%d", g, i)
				if ex.method == "POST" {
					ex.body = []byte("payload-payload-payload")
				}
				ex.newConn = c.Intn(3, "newconn") == 0
				rs := &respScript{status: 200, framing: "cl", hdr: []hdrKV{{"Content-Type", "text/plain"}}, body: []byte(fmt.Sprintf("resp-%d-%d", g, i))}
				if withGzip && c.Intn(3, "accept-gzip") != 0 {
					ex.hdr = append(ex.hdr, hdrKV{"Accept-Encoding", "gzip"})
					rs.body = []byte(strings.Repeat(fmt.Sprintf("resp-%d-%d ", g, i), 20+c.Intn(200, "gz-repeat")))
				}
				faultOdds := 8
				if o.breaker != nil {
					faultOdds = 5 // the breaker should see enough failures to cycle through its states
				}
				switch c.Intn(faultOdds, "fault") {
				case 0:
					rs.status = 500
					x.Fault("backend-5xx")
				case 1:
					rs.status = 502
					x.Fault("backend-5xx")
				case 2:
					rs.fault = "rst-after-headers"
					x.Fault("backend-reset-after-headers")
				case 3:
					rs.fault = "short-body"
					x.Fault("backend-short-body")
				}
				ex.resp = rs
				ops = append(ops, op{kind: "req", ex: ex})
				descr["req"]++
			case 1:
				switch c.Intn(4, "adminop") {
				case 0:
					b, _ := json.Marshal(map[string]any{"name": fmt.Sprintf("dyn%d", c.Intn(3, "dyn")), "address": fmt.Sprintf("http://10.20.0.%d:80", 1+c.Intn(o.nBackends, "addr")), "weight": 1 + c.Intn(3, "w")})
					ops = append(ops, op{kind: "admin", path: "POST /v1/backends/add", body: string(b)})
				case 1:
					b, _ := json.Marshal(map[string]any{"name": fmt.Sprintf("dyn%d", c.Intn(3, "dyn"))})
					ops = append(ops, op{kind: "admin", path: "POST /v1/backends/remove", body: string(b)})
				case 2:
					b, _ := json.Marshal(map[string]any{"strategy": strategies[c.Intn(5, "strat")]})
					ops = append(ops, op{kind: "admin", path: "POST /v1/strategy", body: string(b)})
				case 3:
					ops = append(ops, op{kind: "admin", path: "GET /v1/backends"})
				}
				descr["admin"]++
			case 2:
				ops = append(ops, op{kind: "read", path: []string{"metrics", "health", "GET /v1/metrics", "GET /v1/backends"}[c.Intn(4, "reader")]})
				descr["read"]++
			}
		}
		wg.Add(1)
		go func(cl *sClient, ops []op) {
			defer wg.Done()
			for _, o := range ops {
				switch o.kind {
				case "req":
					cl.run(o.ex)
					env.mu.Lock()
					o.ex.done = true
					env.mu.Unlock()
				case "admin", "read":
					var h http.Handler = mux
					path := o.path
					switch o.path {
					case "metrics":
						h, path = mc.MetricsHandler(), "GET /metrics"
					case "health":
						h, path = mc.HealthHandler(), "GET /health"
					}
					parts := strings.SplitN(path, " ", 2)
					r, _ := http.NewRequest(parts[0], "http://admin.test"+parts[1], bytes.NewReader([]byte(o.body)))
					r.RemoteAddr = "127.0.0.1:1"
					h.ServeHTTP(newRecorder(), r)
				}
				time.Sleep(time.Duration(1+len(o.path)%7) * pace)
			}
		}(cl, ops)
	}
	x.Sample["config"] = fmt.Sprintf("strategy=%s backends=%d passive=%v active=%v breaker=%v limiter=%v wspool=%v plugins=%d goroutines=%d ops=%v (schedule: Go runtime, not seed-decided)", o.strategy, o.nBackends, o.passive, o.active, o.breaker != nil, o.limiter != nil, o.wsPool, len(o.plugins), nG, descr)
	x.Logf("sysrace %s", x.Sample["config"])
	x.Nontrivial = true
	// in a third of the runs the shutdown starts while traffic, admin calls and readers are still
	// at work (the admin and metrics servers keep serving during a real shutdown as well)
	var earlyDone chan struct{}
	if c.Intn(3, "early-shutdown") == 0 {
		after := time.Duration(20+c.Intn(900, "shutdown-after-ms")) * time.Millisecond
		earlyDone = make(chan struct{})
		go func() {
			time.Sleep(after)
			shutdownGracefully(env.srv, env.lb, 5*time.Second)
			close(earlyDone)
		}()
		x.Fault("shutdown-during-traffic")
	}
	finished := make(chan struct{})
	go func() { wg.Wait(); close(finished) }()
	stuck := false
	select {
	case <-finished:
	case <-time.After(10 * time.Minute): // virtual
		stuck = true
	}
	if stuck {
		env.wedged = true
		ws := simrt.FreeLockWaiters()
		key := ws
		if cyc := simrt.FreeLockCycle(); cyc != nil {
			key = cyc
		}
		if len(ws) > 0 {
			x.Violate("C12", "C12/deadlock{"+strings.Join(key, "+")+"}", "goroutines are blocked for good on Helios locks at %v", ws)
		} else {
			x.Probe("workload-did-not-finish")
		}
	} else {
		// shutdown races with whatever is still winding down
		done := make(chan struct{})
		if earlyDone != nil {
			done = earlyDone
		} else {
			go func() { shutdownGracefully(env.srv, env.lb, 5*time.Second); close(done) }()
		}
		select {
		case <-done:
		case <-time.After(time.Minute):
			x.Violate("C12", "C12/shutdown-blocked", "shutdownGracefully did not return within a simulated minute after concurrent traffic")
		}
		x.Probe("race-run-completed")
		// C13 under true parallelism: nothing is in flight any more, so the books must balance --
		// per backend (successful + failed = total; updates of one record lost by overlapping
		// writers show here) and overall (every per-backend record belongs to a counted request)
		{
			m := mc.GetMetrics()
			var sumB uint64
			for name, bm := range m.BackendMetrics {
				sumB += bm.TotalRequests
				if bm.SuccessfulRequests+bm.FailedRequests != bm.TotalRequests {
					x.Violate("C13", "C13/per-backend-classes-do-not-add-up{parallel}", "after %d goroutines of concurrent traffic and nothing in flight: backend %s has successful(%d)+failed(%d) != total(%d)", nG, name, bm.SuccessfulRequests, bm.FailedRequests, bm.TotalRequests)
				}
				if bm.ActiveConnections != 0 {
					x.Violate("C13", "C13/gauge-metrics{parallel}", "after %d goroutines of concurrent traffic and nothing in flight: backend %s reports active_connections=%d", nG, name, bm.ActiveConnections)
				}
			}
			if sumB > m.TotalRequests {
				x.Violate("C13", "C13/per-backend-total{parallel}", "the per-backend totals add up to %d, more than total_requests=%d", sumB, m.TotalRequests)
			}
			if m.SuccessfulRequests+m.FailedRequests+m.RateLimitedRequests != m.TotalRequests {
				x.Violate("C13", "C13/classes-do-not-add-up{parallel}", "after %d goroutines of concurrent traffic and nothing in flight: successful(%d)+failed(%d)+rate_limited(%d) != total_requests(%d)", nG, m.SuccessfulRequests, m.FailedRequests, m.RateLimitedRequests, m.TotalRequests)
			}
			x.Probe("books-checked-after-parallel-traffic")
		}
		if o.breaker != nil {
			for _, cbm := range mc.GetMetrics().CircuitBreakerMetrics {
				if !cbm.LastStateChange.IsZero() {
					x.Probe("breaker-changed-state")
				}
				if cbm.State != "CLOSED" && cbm.State != "closed" {
					x.Probe("breaker-not-closed-at-end")
				}
			}
		}
	}
	for _, p := range stdLogWatcher.take() {
		x.Violate("C12", "C12/panic{"+panicKey(p)+"}", "net/http reported: %s", p)
	}
	for _, rep := range readNewRaceReports() {
		sites := raceSites(rep)
		if len(sites) == 0 {
			x.Probe("race-report-without-helios-frame")
			continue
		}
		short := rep
		if len(short) > 1500 {
			short = short[:1500]
		}
		x.Violate("C12", "C12/race{"+strings.Join(uniqStrings(sites), "+")+"}", "data race between %v:\n%s", sites, short)
		// A data race inside the code a property rests on is reported under that property too,
		// as what it is: the lost update or the torn value itself takes luck to draw (a window of
		// nanoseconds), the race that makes it possible does not.
		key := strings.Join(uniqStrings(sites), "+")
		all := func(prefixes ...string) bool {
			for _, st := range sites {
				ok := false
				for _, p := range prefixes {
					if strings.HasPrefix(st, p) {
						ok = true
					}
				}
				if !ok {
					return false
				}
			}
			return true
		}
		if all("internal/metrics/") {
			x.Violate("C13", "C13/race-in-accounting{"+key+"}", "data race between %v in the metrics collector under %d goroutines of traffic (request accounting rests on these counters being updated race-free):\n%s", sites, nG, short)
		}
		anyIn := func(prefix string) bool {
			for _, st := range sites {
				if strings.HasPrefix(st, prefix) {
					return true
				}
			}
			return false
		}
		// (the other party of a race on the compressor's buffers is whoever touches the bytes next:
		// a wrapper further out that writes them to the client)
		if anyIn("internal/plugins/compression.go") {
			x.Violate("C15", "C15/race-in-compressor{"+key+"}", "data race between %v in the gzip plugin with several responses in flight (each response decoding to its own backend's body rests on the compressor's state not being shared unsynchronised):\n%s", sites, short)
		}
		if all("internal/loadbalancer/ip_hash") {
			x.Violate("C06", "C06/race-in-hash{"+key+"}", "data race between %v in the hash strategy under %d goroutines of traffic (one client, one backend rests on the hash step being race-free):\n%s", sites, nG, short)
		}
	}
}

func uniqStrings(in []string) []string {
	var out []string
	for i, s := range in {
		if i == 0 || s != in[i-1] {
			out = append(out, s)
		}
	}
	return out
}

func panicKey(p string) string {
	if m := regexp.MustCompile(`panic serving [^:]*:\d*: (.{0,60})`).FindStringSubmatch(p); m != nil {
		return strings.TrimSpace(m[1])
	}
	if len(p) > 60 {
		return p[:60]
	}
	return p
}
