package main

// Scenario "lbadmin": runtime reconfiguration through the real admin API mux
// (C11). 2-4 admin actors issue add / remove / set_strategy / list with
// repeated names, absent names, unparsable addresses and unknown strategies,
// concurrently with traffic. Oracle 1: the step-stamped invoke/return history
// is linearizable (porcupine) w.r.t. a sequential model of the backend set.
// Oracle 2: traffic is served normally and never by a backend that was
// definitely removed. Oracle 3: a strategy switch preserves health.

import (
	"github.com/0xReLogic/Helios/internal/loadbalancer"
	"bytes"
	"encoding/json"
	"fmt"
	"net/http"
	"sort"
	"strings"
	"time"

	"github.com/0xReLogic/Helios/internal/adminapi"
	"github.com/0xReLogic/Helios/internal/config"
	"github.com/anishathalye/porcupine"
	"vsim/simrt"
)

func init() {
	register(&Scenario{Name: "lbadmin", Props: []string{"C11"}, Kind: "micro", Run: runLBAdmin})
}

type adminIn struct {
	Op     string // add | remove | strategy | list
	Name   string
	Addr   string
	Weight int
	Strat  string
}

type adminOut struct {
	Code int
	List string // sorted "name|addr|weight" joined by ";" (list only)
}

type histOp struct {
	in       adminIn
	out      adminOut
	inv, ret uint64
	actor    int
}

type adminState struct {
	entries []string // sorted
	strat   string
}

func (s adminState) key() string { return s.strat + "#" + strings.Join(s.entries, ";") }

var knownStrategies = map[string]bool{"round_robin": true, "least_connections": true, "weighted_round_robin": true, "ip_hash": true, "ip_hash_consistent": true}

func addrParsable(a string) bool {
	switch a {
	case "http://[::1", "%zz", ":foo", "10.0.0.1:80":
		return false
	}
	return true
}

func adminStep(st adminState, in adminIn, out adminOut) (bool, adminState) {
	switch in.Op {
	case "add":
		if in.Name == "" || in.Addr == "" || !addrParsable(in.Addr) {
			return out.Code == 400, st
		}
		w := in.Weight
		if w < 1 {
			w = 1
		}
		ns := adminState{strat: st.strat, entries: append(append([]string{}, st.entries...), fmt.Sprintf("%s|%s|%d", in.Name, in.Addr, w))}
		sort.Strings(ns.entries)
		return out.Code == 201, ns
	case "remove":
		if in.Name == "" {
			return out.Code == 400, st
		}
		ns := adminState{strat: st.strat}
		for _, e := range st.entries {
			if !strings.HasPrefix(e, in.Name+"|") {
				ns.entries = append(ns.entries, e)
			}
		}
		return out.Code == 200, ns
	case "strategy":
		if !knownStrategies[in.Strat] {
			return out.Code == 400, st
		}
		return out.Code == 200, adminState{entries: st.entries, strat: in.Strat}
	case "list":
		return out.Code == 200 && out.List == strings.Join(st.entries, ";"), st
	}
	return false, st
}

func runLBAdmin(x *X) {
	c := x.C
	strategy := strategies[c.Intn(5, "strategy")]
	window := 20
	s := x.StartMicro()
	net := newStubNet(x)
	// hosts h1..h6 exist; names are drawn from a small set so that they repeat
	hostOf := func(i int) string { return x.BackendHost(5, i) }
	// in half of the runs some hosts take their time: their requests are still in flight
	// while members come and go around them
	slowHosts := c.Intn(2, "slow-hosts") == 1
	for i := 0; i <= 6; i++ {
		b := net.add(fmt.Sprintf("host%d", i), hostOf(i), "")
		if slowHosts {
			b.delay = []time.Duration{0, 0, 40 * time.Millisecond, 2 * time.Second, 30 * time.Second}[c.Intn(5, "host-delay")]
		}
	}
	if slowHosts {
		x.Probe("reconfiguration-with-requests-in-flight")
	}
	// the stub registry is keyed by host; several names may point at one host
	// weights with and without common divisors (a strategy may normalise its own copy, never what is listed)
	wPalette := []int{1, 2, 3, 4, 6, 2, 4, 5}
	init0 := []config.BackendConfig{{Name: "perm", Address: "http://" + hostOf(0), Weight: wPalette[c.Intn(len(wPalette), "w-perm")]}}
	nInit := c.Intn(3, "ninit")
	names := []string{"a", "b", "c"}
	for i := 0; i < nInit; i++ {
		init0 = append(init0, config.BackendConfig{Name: names[i], Address: "http://" + hostOf(i+1), Weight: wPalette[c.Intn(len(wPalette), "w")]})
	}
	onErr := func(e *simrt.SchedError) {
		x.Violate("C12", "C12/"+e.Kind+"{lbadmin}", "%s", e.Error())
		x.Blocked(e, "lbadmin")
	}
	var h *lbHarness
	var mux http.Handler
	x.Do("setup", func() {
		h, _ = newLBHarness(x, net, lbOpts{strategy: strategy, backends: init0, passive: true, threshold: 1, window: window})
		if h != nil {
			mux = adminapi.NewMux(h.lb, h.cfg, h.lb.GetMetricsCollector())
		}
	}, onErr)
	if h == nil {
		s.Teardown()
		return
	}
	initState := adminState{strat: strategy}
	for _, bc := range init0 {
		initState.entries = append(initState.entries, fmt.Sprintf("%s|%s|%d", bc.Name, bc.Address, bc.Weight))
	}
	sort.Strings(initState.entries)

	var hist []histOp
	callAdmin := func(actor int, in adminIn) adminOut {
		var method, path string
		var body []byte
		switch in.Op {
		case "add":
			method, path = "POST", "/v1/backends/add"
			// a caller that leaves a field out sends no key at all (every other call), not a zero: either
			// way the call describes one backend and nothing of an earlier call
			fields := map[string]any{"name": in.Name, "address": in.Addr, "weight": in.Weight}
			if x.Seq()%2 == 0 {
				if in.Name == "" {
					delete(fields, "name")
				}
				if in.Addr == "" {
					delete(fields, "address")
				}
				if in.Weight == 0 {
					delete(fields, "weight")
					x.Probe("admin-add-omits-weight")
				}
			}
			body, _ = json.Marshal(fields)
		case "remove":
			method, path = "POST", "/v1/backends/remove"
			body, _ = json.Marshal(map[string]any{"name": in.Name})
		case "strategy":
			method, path = "POST", "/v1/strategy"
			body, _ = json.Marshal(map[string]any{"strategy": in.Strat})
		case "list":
			method, path = "GET", "/v1/backends"
		}
		r, _ := http.NewRequest(method, "http://admin.test"+path, bytes.NewReader(body))
		r.RemoteAddr = "127.0.0.1:5555"
		rec := newRecorder()
		inv := x.Seq()
		x.Logf("admin inv %d actor=%d %+v", inv, actor, in)
		mux.ServeHTTP(rec, r)
		out := adminOut{Code: rec.status}
		if !rec.wrote {
			out.Code = 200
		}
		if in.Op == "list" && out.Code == 200 {
			var infos []struct {
				Name    string `json:"name"`
				Address string `json:"address"`
				Weight  int    `json:"weight"`
			}
			if err := json.Unmarshal(rec.body.Bytes(), &infos); err != nil {
				out.Code = -1
			}
			var es []string
			for _, bi := range infos {
				es = append(es, fmt.Sprintf("%s|%s|%d", bi.Name, bi.Address, bi.Weight))
			}
			sort.Strings(es)
			out.List = strings.Join(es, ";")
		}
		ret := x.Seq()
		x.Logf("admin ret %d actor=%d code=%d list=%s", ret, actor, out.Code, out.List)
		x.mu.Lock()
		hist = append(hist, histOp{in, out, inv, ret, actor})
		x.mu.Unlock()
		return out
	}
	drawOp := func() adminIn {
		badAddrs := []string{"http://[::1", "%zz", ":foo", "10.0.0.1:80"}
		badStrats := []string{"random", "", "ROUND_ROBIN", "least-connections"}
		switch c.Pick([]int{5, 4, 2, 3}, "adminop") {
		case 0:
			in := adminIn{Op: "add", Name: names[c.Intn(3, "name")], Addr: "http://" + hostOf(1+c.Intn(6, "host")), Weight: append([]int{0, -1, -3}, wPalette...)[c.Intn(len(wPalette)+3, "w")]} // (no weight, or a negative one: counts as 1)
			switch c.Intn(8, "addbad") {
			case 6:
				in.Addr = badAddrs[c.Intn(len(badAddrs), "badaddr")]
				x.Fault("admin-bad-address")
			case 7:
				in.Name = ""
				x.Fault("admin-empty-name")
			}
			return in
		case 1:
			// (the permanent member can go too: a pool may be emptied and refilled at run time)
			in := adminIn{Op: "remove", Name: append([]string{"perm"}, names...)[c.Intn(4, "name4")]}
			if c.Intn(8, "rmbad") == 7 {
				in.Name = "ghost"
			}
			return in
		case 2:
			in := adminIn{Op: "strategy", Strat: strategies[c.Intn(5, "strat")]}
			if c.Intn(4, "stratbad") == 3 {
				in.Strat = badStrats[c.Intn(len(badStrats), "badstrat")]
				x.Fault("admin-bad-strategy")
			}
			return in
		}
		return adminIn{Op: "list"}
	}

	// ---- phase 1: sequential ops against the model (exact) -------------------
	nSeq := c.Intn(8, "nseq")
	for i := 0; i < nSeq && !x.dead; i++ {
		in := drawOp()
		x.Do("admin", func() { callAdmin(0, in) }, onErr)
	}
	// ---- phase 2: concurrent actors + traffic ---------------------------------
	actors := 2 + c.Intn(3, "actors")
	budget := 36 - len(hist)
	perActor := 1 + c.Intn(6, "peractor")
	for perActor*actors > budget && perActor > 1 {
		perActor--
	}
	for a := 0; a < actors; a++ {
		var ops []adminIn
		for j := 0; j < perActor; j++ {
			ops = append(ops, drawOp())
		}
		actor := a + 1
		s.Spawn(fmt.Sprintf("admin%d", actor), func() {
			for _, in := range ops {
				callAdmin(actor, in)
			}
		})
	}
	nTraffic := c.Intn(4, "traffic")
	type served struct {
		res simResult
	}
	var results []simResult
	for t := 0; t < nTraffic; t++ {
		k := 1 + c.Intn(6, "nreq")
		cl := fmt.Sprintf("192.0.2.%d", 1+t)
		s.Spawn("traffic", func() {
			for j := 0; j < k; j++ {
				r := h.do(reqSpec{client: cl, path: fmt.Sprintf("/t%d", j)})
				x.mu.Lock()
				results = append(results, r)
				x.mu.Unlock()
			}
		})
	}
	x.RunTasks(onErr)
	if actors > 1 {
		x.Probe("concurrent-admin")
	}
	// final list (sequential) so that the end state is observed
	if !x.dead {
		x.Do("admin", func() { callAdmin(0, adminIn{Op: "list"}) }, onErr)
	}
	x.Sample["config"] = fmt.Sprintf("strategy=%s initial=%v sequential=%d actors=%d x %d ops traffic_tasks=%d", strategy, initState.entries, nSeq, actors, perActor, nTraffic)
	var opDesc []string
	for _, o := range hist {
		opDesc = append(opDesc, fmt.Sprintf("[%d,%d] a%d %s(%s %s %s)->%d", o.inv, o.ret, o.actor, o.in.Op, o.in.Name, o.in.Addr, o.in.Strat, o.out.Code))
	}
	x.Sample["history"] = opDesc

	// ---- oracle 2: traffic ------------------------------------------------------
	if !x.dead {
		evs := net.snapshot()
		hostName := map[string]string{}
		_ = hostName
		// the member "perm" serves as long as nobody has asked for its removal: a request that
		// returned before the first remove(perm) was even invoked must have been served
		permGoneFrom := ^uint64(0)
		for _, o := range hist {
			if o.in.Op == "remove" && o.in.Name == "perm" && o.inv < permGoneFrom {
				permGoneFrom = o.inv
			}
		}
		reqRet := map[int]uint64{}
		for _, e := range evs {
			if e.kind == "ret" {
				reqRet[e.req] = e.seq
			}
		}
		for _, r := range results {
			if r.status != 200 && reqRet[r.id] < permGoneFrom {
				x.Violate("C11", "C11/traffic-not-served{status="+fmt.Sprint(r.status)+"}", "request %d returned %d during reconfiguration although a healthy backend (perm) was a member from start to the end of the request", r.id, r.status)
			}
		}
		// "arriving during any change are served normally": nothing in the proxy takes (virtual)
		// time between a request's arrival and its dispatch -- a request that waited was held
		// up by a change (or by another request's backend)
		invAt := map[int]time.Duration{}
		for _, e := range evs {
			switch e.kind {
			case "inv":
				invAt[e.req] = e.at
			case "dispatch":
				if at, ok := invAt[e.req]; ok && e.at-at > 0 {
					x.Violate("C11", "C11/request-held-up-by-reconfiguration", "request %d arrived at t=%v and was dispatched (to %s) only at t=%v while backends were being added/removed/switched: it waited %v for something other than its own backend", e.req, at, e.backend, e.at, e.at-at)
				}
			}
		}
		// a request invoked after remove(name) returned must not reach a host that only that name pointed to
		type addRec struct {
			name, host string
			inv, ret   uint64
		}
		var adds []addRec
		for _, bc := range init0 {
			adds = append(adds, addRec{bc.Name, strings.TrimPrefix(bc.Address, "http://"), 0, 0})
		}
		for _, o := range hist {
			if o.in.Op == "add" && o.out.Code == 201 {
				adds = append(adds, addRec{o.in.Name, strings.TrimPrefix(o.in.Addr, "http://"), o.inv, o.ret})
			}
		}
		reqInv := map[int]uint64{}
		for _, e := range evs {
			if e.kind == "inv" {
				reqInv[e.req] = e.seq
			}
		}
		for _, e := range evs {
			if e.kind != "dispatch" {
				continue
			}
			b := net.byName[e.backend] // stub name "hostN"
			inv := reqInv[e.req]
			// is there any add of a name pointing at this host that is not definitely removed?
			alive := false
			for _, a := range adds {
				if a.host != b.host {
					continue
				}
				removed := false
				for _, o := range hist {
					if o.in.Op == "remove" && o.out.Code == 200 && o.in.Name == a.name && o.inv > a.ret && o.ret < inv {
						removed = true
					}
				}
				if !removed {
					alive = true
				}
			}
			if !alive {
				x.Violate("C11", "C11/traffic-to-removed-backend", "request %d (invoked at step %d) was dispatched to %s although every backend with that address had been removed before it was invoked", e.req, inv, b.host)
			}
		}
	}

	// ---- oracle 3: strategy switch preserves health --------------------------
	if !x.dead && c.Intn(2, "healthswitch") == 1 {
		// eject perm's sibling through a real failure, switch, compare flags
		var before, after map[string]bool
		target := net.order[0]
		// (the set itself -- names, addresses, weights -- is the operator's: failures, ejections and
		// traffic do not touch it)
		var listBefore adminOut
		x.Do("admin", func() { listBefore = callAdmin(0, adminIn{Op: "list"}) }, onErr)
		net.mu.Lock()
		target.mode = "s500"
		for _, b := range net.order {
			b.delay = 0 // (this step measures inside one ejection window: no slow answers here)
		}
		net.mu.Unlock()
		for j := 0; j < 12 && !x.dead; j++ {
			x.Do("req", func() { h.do(reqSpec{client: fmt.Sprintf("198.51.100.%d", j+1)}) }, onErr)
			x.Do("obs", func() { before = h.healthSnapshot() }, onErr)
			if before != nil && !before["perm"] {
				break
			}
		}
		net.mu.Lock()
		target.mode = "ok"
		net.mu.Unlock()
		if before != nil && !before["perm"] && !x.dead {
			for j := 0; j < 4 && !x.dead; j++ {
				x.Do("req", func() { h.do(reqSpec{client: fmt.Sprintf("198.51.100.%d", 30+j)}) }, onErr)
			}
			var listAfter adminOut
			x.Do("admin", func() { listAfter = callAdmin(0, adminIn{Op: "list"}) }, onErr)
			if !x.dead && listBefore.Code == 200 && listAfter.Code == 200 && listBefore.List != listAfter.List {
				x.Violate("C11", "C11/membership-changed-by-ejection", "no admin call in between, one backend ejected through failed responses and four more requests: the admin API listed [%s] before and [%s] after", listBefore.List, listAfter.List)
			}
			ns := strategies[c.Intn(5, "newstrat")]
			x.Do("admin", func() { callAdmin(0, adminIn{Op: "strategy", Strat: ns}) }, onErr)
			x.Do("obs", func() { after = h.healthSnapshot() }, onErr)
			if after != nil {
				for k, v := range before {
					if after[k] != v {
						x.Violate("C11", "C11/strategy-switch-changed-health", "backend %s healthy=%v before switching to %s and healthy=%v after", k, v, ns, after[k])
					}
				}
				x.Probe("switch-with-ejected-backend")
			}
			// and it still gets no traffic inside its window
			d0 := 0
			net.mu.Lock()
			d0 = target.dispatched
			net.mu.Unlock()
			x.Advance(time.Second, onErr)
			for j := 0; j < 6 && !x.dead; j++ {
				x.Do("req", func() { h.do(reqSpec{client: fmt.Sprintf("198.51.100.%d", 50+j)}) }, onErr)
			}
			net.mu.Lock()
			d1 := target.dispatched
			net.mu.Unlock()
			// perm's host may be shared with another live name; only judge when it is not
			shared := false
			for _, o := range hist {
				if o.in.Op == "add" && o.out.Code == 201 && strings.HasSuffix(o.in.Addr, hostOf(0)) {
					shared = true
				}
			}
			if d1 != d0 && !shared {
				x.Violate("C11", "C11/strategy-switch-lost-ejection", "backend perm was ejected %v ago (window %ds) and received traffic after switching to %s", time.Second, window, ns)
			}
		}
	}

	// ---- oracle 4: a member removed and added again under its name is a new member ----------
	// Requests still in flight on the old instance fail after the new one has been added: that is
	// the old instance's failure. The new one has served nothing and stays healthy and eligible.
	if !x.dead && c.Intn(3, "readd-while-old-requests-fail") == 0 {
		net.mu.Lock()
		for _, b := range net.order {
			b.mode, b.delay = "ok", 0
		}
		net.mu.Unlock()
		x.Advance(time.Duration(window+1)*time.Second, onErr) // every earlier ejection is over
		var plans []*reqPlan
		for j := 0; j < 3; j++ {
			p := &reqPlan{hold: true, mode: "s500"}
			plans = append(plans, p)
			cl := fmt.Sprintf("198.51.100.%d", 90+j)
			s.Spawn("held-failing", func() { h.do(reqSpec{client: cl, path: "/old-instance", plan: p}) })
			x.Settle(onErr)
		}
		// which member holds one of them?
		var victim *loadbalancer.BackendInfo
		var list []loadbalancer.BackendInfo
		x.Do("list", func() { list = h.lb.ListBackends() }, onErr)
		net.mu.Lock()
		for i := range list {
			if b := net.byHost[strings.TrimPrefix(list[i].Address, "http://")]; b != nil && b.inflight > 0 && victim == nil {
				victim = &list[i]
			}
		}
		net.mu.Unlock()
		newHost := hostOf(6)
		if victim != nil && strings.HasSuffix(victim.Address, newHost) {
			newHost = hostOf(5)
		}
		if victim != nil && !x.dead {
			x.Do("remove+add", func() {
				h.lb.RemoveBackend(victim.Name)
				if err := h.lb.AddBackend(config.BackendConfig{Name: victim.Name, Address: "http://" + newHost, Weight: 1}); err != nil {
					panic(err)
				}
			}, onErr)
		}
		net.mu.Lock()
		for _, p := range plans {
			p.released = true
		}
		net.mu.Unlock()
		x.RunTasks(onErr)
		if victim != nil && !x.dead {
			x.Do("list", func() { list = h.lb.ListBackends() }, onErr)
			for _, bi := range list {
				if bi.Name == victim.Name && strings.HasSuffix(bi.Address, newHost) && !bi.Healthy {
					x.Violate("C11", "C11/re-added-member-inherits-ejection", "backend %s was removed and added again (new address %s) while requests were in flight on the old instance (%s); when those failed, the NEW member -- which has served nothing -- was ejected", bi.Name, bi.Address, victim.Address)
				}
			}
			x.Probe("readd-while-old-requests-fail")
		}
	}

	// ---- oracle 1: linearizability (outside the bubble) -------------------------
	finalHist := append([]histOp{}, hist...)
	x.PostCheck = func() {
		if len(finalHist) == 0 || len(finalHist) > 48 {
			return
		}
		model := porcupine.Model{
			Init: func() interface{} { return initState },
			Step: func(state, input, output interface{}) (bool, interface{}) {
				return adminStep(state.(adminState), input.(adminIn), output.(adminOut))
			},
			Equal: func(a, b interface{}) bool { return a.(adminState).key() == b.(adminState).key() },
		}
		var ops []porcupine.Operation
		for _, o := range finalHist {
			ops = append(ops, porcupine.Operation{ClientId: o.actor, Input: o.in, Call: int64(o.inv), Output: o.out, Return: int64(o.ret)})
		}
		switch porcupine.CheckOperationsTimeout(model, ops, 20*time.Second) {
		case porcupine.Illegal:
			cause := linearCause(finalHist, initState)
			x.Violate("C11", "C11/not-linearizable{"+cause+"}", "admin history of %d operations is not linearizable w.r.t. the backend-set model (%s): %v", len(finalHist), cause, opDesc)
		case porcupine.Unknown:
			x.Probe("porcupine-unknown")
		default:
			x.Probe("linearizable")
		}
	}
	x.State(strategy, fmt.Sprint(len(hist)))
	if left := s.Teardown(); left > 0 {
		x.Probe("teardown-left")
	}
}

// linearCause gives a coarse diagnosis for the fingerprint: a history in which
// a name was added twice (counting the initial configuration) and then removed
// is diagnosed as such; otherwise the first operation kind that disagrees with
// a sequential replay in return order is named.
func linearCause(hist []histOp, init adminState) string {
	initial := map[string]int{}
	for _, e := range init.entries {
		initial[e[:strings.Index(e, "|")]]++
	}
	hs := append([]histOp{}, hist...)
	for _, r := range hs {
		if r.in.Op != "remove" || r.out.Code != 200 {
			continue
		}
		n := initial[r.in.Name]
		for _, a := range hs {
			if a.in.Op == "add" && a.out.Code == 201 && a.in.Name == r.in.Name && a.inv < r.ret {
				n++
			}
		}
		if n >= 2 {
			return "remove-of-duplicate-name"
		}
	}
	sort.Slice(hs, func(i, j int) bool { return hs[i].ret < hs[j].ret })
	st := init
	for _, o := range hs {
		ok, ns := adminStep(st, o.in, o.out)
		if !ok {
			return o.in.Op
		}
		st = ns
	}
	return "concurrent-only"
}
