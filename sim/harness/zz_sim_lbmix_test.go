package main

// Scenario "lbmix": the operation mix of C12 under the *controlled* scheduler
// (micro-sim). The race tier (sysrace) decides data races by happens-before;
// this scenario decides the other two thirds of C12 -- deadlocks and panics --
// with a seed-decided, replayable interleaving: client traffic with drawn
// backend faults (passive ejections, breaker transitions), active probes,
// elapsed unhealthy windows (lazy recovery), admin add/remove/strategy/list,
// metrics and health readers, MarkBackendUnhealthy and Stop run as 3-10
// cooperative tasks that are preempted at every lock, atomic and goroutine
// start of Helios. The instrumented RWMutex gives a waiting writer preference
// over new readers, as sync.RWMutex does, so a recursive read lock or a lock
// order inversion shows up as a wait-for cycle.
//
// Oracle (crash-type only, nothing about outcomes): no wait-for cycle / no
// task blocked for good, no spinning without progress, no panic out of Helios
// code, no WaitGroup misuse.

import (
	"bytes"
	"encoding/json"
	"fmt"
	"net/http"
	"strings"
	"time"

	"github.com/0xReLogic/Helios/internal/adminapi"
	"github.com/0xReLogic/Helios/internal/config"
	"vsim/simrt"
)

func init() {
	register(&Scenario{Name: "lbmix", Props: []string{"C12", "C03", "C11", "C13"}, Kind: "micro", Run: runLBMix})
}

func runLBMix(x *X) {
	c := x.C
	strategy := strategies[c.Intn(5, "strategy")]
	nb := 2 + c.Intn(3, "nbackends")
	o := lbOpts{strategy: strategy}
	o.passive = c.Intn(4, "passive") != 0
	o.threshold = 1 + c.Intn(2, "threshold")
	o.window = 1 + c.Intn(3, "window")
	o.active = c.Intn(2, "active") == 1
	o.interval, o.timeout = 2, 1
	if c.Intn(2, "breaker") == 1 {
		o.breaker = &config.CircuitBreakerConfig{Enabled: true, MaxRequests: 1 + c.Intn(2, "mr"), IntervalSeconds: 5, TimeoutSeconds: 1 + c.Intn(2, "cbt"), FailureThreshold: 1 + c.Intn(3, "cbft"), SuccessThreshold: 1}
		if c.Intn(3, "cb-success-threshold") == 0 {
			o.breaker.SuccessThreshold = 2
			o.breaker.MaxRequests = []int{0, 2}[c.Intn(2, "cb-mr-unset")]
		}
	}
	if c.Intn(2, "limiter") == 1 {
		o.limiter = &config.RateLimitConfig{Enabled: true, MaxTokens: 2 + c.Intn(6, "tokens"), RefillRate: 1 + c.Intn(2, "refill")}
	}
	o.wsPool = c.Intn(2, "wspool") == 1
	o.fullChain = c.Intn(2, "chain") == 1
	s := x.StartMicro()
	net := newStubNet(x)
	hostOf := func(i int) string { return x.BackendHost(12, i+1) }
	for i := 0; i < 6; i++ {
		b := net.add(fmt.Sprintf("h%d", i), hostOf(i), "")
		b.probeMode = []string{"ok", "ok", "conn", "status", "slow"}[c.Intn(5, "probemode")]
		b.probeSlow = 1500 * time.Millisecond
	}
	for i := 0; i < nb; i++ {
		o.backends = append(o.backends, config.BackendConfig{Name: fmt.Sprintf("b%d", i), Address: "http://" + hostOf(i), Weight: 1 + c.Intn(3, "w")})
	}
	faultsInjected := 0
	onErr := func(e *simrt.SchedError) {
		x.Violate("C12", "C12/"+e.Kind+"{"+strings.Join(e.Sites, "+")+"}", "%s", e.Error())
		if faultsInjected > 0 && e.Kind != "step-budget" {
			// C03: no sequence of backend faults may deadlock or wedge the proxy
			x.Violate("C03", "C03/"+e.Kind+"{"+strings.Join(e.Sites, "+")+"}", "after %d injected backend faults: %s", faultsInjected, e.Error())
		}
		x.Blocked(e, "lbmix")
	}
	simrt.WGMisuse = func(site string) {
		x.Violate("C12", "C12/waitgroup-misuse{"+site+"}", "WaitGroup.Add at %s races with a Wait that found the counter at zero (sync.WaitGroup panics: reused before previous Wait has returned)", site)
	}
	defer func() { simrt.WGMisuse = nil }()
	var h *lbHarness
	var mux http.Handler
	x.Do("setup", func() {
		h, _ = newLBHarness(x, net, o)
		if h != nil {
			mux = adminapi.NewMux(h.lb, h.cfg, h.lb.GetMetricsCollector())
		}
	}, onErr)
	if h == nil {
		s.Teardown()
		return
	}
	stalls := c.Intn(3, "stalls") == 0
	if stalls {
		// some goroutines lose the CPU for longer than windows, probe intervals and breaker timeouts
		x.EnableStalls(25, 3, 300*time.Millisecond, 1200*time.Millisecond, 2500*time.Millisecond, 6*time.Second)
	}
	x.Sample["config"] = fmt.Sprintf("strategy=%s backends=%d passive=%v(th=%d,window=%ds) active=%v breaker=%v limiter=%v wspool=%v chain=%v stalls=%v", strategy, nb, o.passive, o.threshold, o.window, o.active, o.breaker != nil, o.limiter != nil, o.wsPool, o.fullChain, stalls)
	x.Logf("lbmix %s", x.Sample["config"])

	admin := func(method, path string, body any) {
		var rd *bytes.Reader
		if body != nil {
			raw, _ := json.Marshal(body)
			rd = bytes.NewReader(raw)
		} else {
			rd = bytes.NewReader(nil)
		}
		r, _ := http.NewRequest(method, "http://admin.test"+path, rd)
		r.RemoteAddr = "127.0.0.1:5555"
		rec := newRecorder()
		x.Logf("admin %s %s", method, path)
		mux.ServeHTTP(rec, r)
	}
	modes := []string{"ok", "ok", "ok", "s500", "s502", "unreach", "abort", "s404"}
	type taskFn struct {
		name string
		fn   func()
	}
	drawTask := func(round int) taskFn {
		switch c.Pick([]int{6, 3, 3, 2, 2, 2}, "task") {
		case 0: // client traffic
			k := 1 + c.Intn(4, "nreq")
			var plans []*reqPlan
			for j := 0; j < k; j++ {
				p := &reqPlan{mode: modes[c.Intn(len(modes), "mode")]}
				if c.Intn(4, "slow") == 0 {
					p.delay = time.Duration(100+c.Intn(900, "delay-ms")) * time.Millisecond
				}
				if p.mode != "ok" {
					x.Fault("backend-" + p.mode)
					faultsInjected++
				}
				plans = append(plans, p)
			}
			cl := fmt.Sprintf("192.0.2.%d", 1+c.Intn(5, "client"))
			return taskFn{"traffic", func() {
				for _, p := range plans {
					h.do(reqSpec{client: cl, plan: p})
				}
			}}
		case 1: // admin reader
			k := 1 + c.Intn(3, "nlist")
			return taskFn{"list", func() {
				for j := 0; j < k; j++ {
					admin("GET", "/v1/backends", nil)
				}
			}}
		case 2: // metrics / health readers
			k := 1 + c.Intn(3, "nmetrics")
			which := c.Intn(3, "which")
			return taskFn{"metrics", func() {
				mc := h.lb.GetMetricsCollector()
				for j := 0; j < k; j++ {
					switch (which + j) % 3 {
					case 0:
						mc.MetricsHandler()(newRecorder(), mustReq("GET", "/metrics"))
					case 1:
						mc.HealthHandler()(newRecorder(), mustReq("GET", "/health"))
					case 2:
						_ = mc.GetMetrics()
					}
				}
			}}
		case 3: // admin writer: add / remove
			name := fmt.Sprintf("b%d", c.Intn(5, "name"))
			host := hostOf(c.Intn(6, "host"))
			w := c.Intn(4, "w")
			first := c.Intn(2, "first")
			return taskFn{"addremove", func() {
				if first == 0 {
					admin("POST", "/v1/backends/add", map[string]any{"name": name, "address": "http://" + host, "weight": w})
					admin("POST", "/v1/backends/remove", map[string]any{"name": name})
				} else {
					admin("POST", "/v1/backends/remove", map[string]any{"name": name})
					admin("POST", "/v1/backends/add", map[string]any{"name": name, "address": "http://" + host, "weight": w})
				}
			}}
		case 4: // strategy switch
			st := strategies[c.Intn(5, "newstrat")]
			return taskFn{"strategy", func() { admin("POST", "/v1/strategy", map[string]any{"strategy": st}) }}
		}
		// explicit ejection through the public API, as a plugin or embedding program would do
		d := []time.Duration{time.Millisecond, 500 * time.Millisecond, 2 * time.Second}[c.Intn(3, "eject-for")]
		return taskFn{"eject", func() {
			if b := h.lb.NextBackend(mustReq("GET", "/")); b != nil {
				h.lb.MarkBackendUnhealthy(b, d)
				h.lb.IsBackendHealthy(b)
			}
		}}
	}
	rounds := 1 + c.Intn(3, "rounds")
	stopRound := -1
	if c.Intn(3, "stop") == 0 {
		stopRound = c.Intn(rounds, "stop-round")
	}
	total := 0
	for r := 0; r < rounds && !x.dead; r++ {
		n := 3 + c.Intn(5, "ntasks")
		if x.Tier == "thorough" && c.Intn(4, "many") == 0 {
			n = 8 + c.Intn(17, "ntasks-th")
		}
		for i := 0; i < n; i++ {
			t := drawTask(r)
			s.Spawn(t.name, t.fn)
			total++
		}
		if r == stopRound {
			k := 1 + c.Intn(2, "nstops")
			for i := 0; i < k; i++ {
				s.Spawn("stop", func() { h.lb.Stop() })
			}
		}
		x.RunTasks(onErr)
		if r+1 < rounds && !x.dead {
			// let windows elapse / probes tick / breaker time out between bursts
			x.Advance(time.Duration(c.Intn(3500, "gap-ms"))*time.Millisecond, onErr)
		}
	}
	// ---- C03: once the faults stop, a request to a healthy backend succeeds normally ------
	if !x.dead && faultsInjected > 0 {
		net.mu.Lock()
		for _, b := range net.order {
			b.mode, b.probeMode, b.delay = "ok", "ok", 0
		}
		net.mu.Unlock()
		// the admin tasks may have removed every backend: make sure a healthy one exists
		x.Do("recov-add", func() {
			admin("POST", "/v1/backends/add", map[string]any{"name": "recov", "address": "http://" + hostOf(5), "weight": 1})
		}, onErr)
		wait := time.Duration(o.window)*time.Second + 3*time.Second
		x.Advance(wait, onErr)
		var statuses []int
		ok := false
		for j := 0; j < 8 && !x.dead && !ok; j++ {
			var r simResult
			x.Do("recovery", func() { r = h.do(reqSpec{client: "192.0.2.200", path: "/recovery"}) }, onErr)
			statuses = append(statuses, r.status)
			if r.status == 200 {
				ok = true
				break
			}
			x.Advance(2100*time.Millisecond, onErr)
		}
		if !x.dead {
			if ok {
				x.Probe("recovered-after-faults")
			} else {
				x.Violate("C03", "C03/no-recovery{micro}", "after %d backend faults stopped and %v passed, 8 requests (2.1 s apart) to healthy backends were answered %v", faultsInjected, wait, statuses)
			}
		}
	}
	if !x.dead && stopRound < 0 {
		x.Do("stop", func() { h.lb.Stop() }, onErr)
	}
	if !x.dead {
		x.Advance(3*time.Second, onErr)
	}
	// ---- C13: whatever the mix did, every request that reached the balancer is in the books once ----
	if !x.dead && x.Settle(onErr) {
		var total, okc, failc, rl uint64
		x.Do("metrics", func() {
			m := h.lb.GetMetricsCollector().GetMetrics()
			total, okc, failc, rl = m.TotalRequests, m.SuccessfulRequests, m.FailedRequests, m.RateLimitedRequests
		}, onErr)
		x.mu.Lock()
		reached := uint64(h.reached)
		x.mu.Unlock()
		held := uint64(0)
		net.mu.Lock()
		for _, b := range net.order {
			held += uint64(b.inflight)
		}
		net.mu.Unlock()
		if !x.dead && held == 0 {
			if total != reached {
				x.Violate("C13", "C13/total-mismatch{mix}", "total_requests=%d but %d requests reached the balancer during a mix of traffic, admin calls, strategy switches and ejections", total, reached)
			} else if okc+failc+rl != total {
				x.Violate("C13", "C13/classes-do-not-add-up{mix}", "successful(%d)+failed(%d)+rate_limited(%d) != total_requests(%d) after a mix of traffic, admin calls, strategy switches and ejections with nothing in flight", okc, failc, rl, total)
			} else {
				x.Probe("mix-books-balance")
			}
		}
	}
	x.checkPanics()
	x.Probe("mix-completed")
	x.State(strategy, fmt.Sprint(o.passive, o.active, o.breaker != nil, o.limiter != nil), fmt.Sprint(total/4))
	s.Teardown()
}

func mustReq(method, path string) *http.Request {
	r, err := http.NewRequest(method, "http://helios.test"+path, nil)
	if err != nil {
		panic(err)
	}
	r.RemoteAddr = "192.0.2.77:50000"
	return r
}
