package main

// Scenario "lbacct": accounting (C13) at micro level. Every request class —
// ok, 4xx, 5xx, unreachable, aborted mid-body, client gone, rate-limited,
// breaker-rejected, no-healthy-backend — sequentially and with concurrent
// clients; at every quiescent point the published numbers must add up against
// the harness' own tallies (requests handed to the balancer, dispatches seen by
// each scripted backend, requests currently held at each backend).

import (
	"errors"
	"bytes"
	"context"
	"fmt"
	"net/http"
	"time"

	"github.com/0xReLogic/Helios/internal/config"
	"vsim/simrt"
)

func init() {
	register(&Scenario{Name: "lbacct", Props: []string{"C13"}, Kind: "micro", Run: runLBAcct})
}

func runLBAcct(x *X) {
	c := x.C
	strategy := strategies[c.Intn(5, "strategy")]
	nb := 1 + c.Intn(4, "nbackends")
	passive := c.Intn(2, "passive") == 1
	threshold := 1 + c.Intn(3, "threshold")
	window := 2 + c.Intn(10, "window")
	useLimiter := c.Intn(3, "limiter") == 2
	useBreaker := c.Intn(4, "breaker") == 3
	o := lbOpts{strategy: strategy, passive: passive, threshold: threshold, window: window}
	if useLimiter {
		o.limiter = &config.RateLimitConfig{Enabled: true, MaxTokens: 1 + c.Intn(6, "tokens"), RefillRate: 1 + c.Intn(5, "refill")}
	}
	if useBreaker {
		o.breaker = &config.CircuitBreakerConfig{Enabled: true, MaxRequests: 1 + c.Intn(3, "mr"), IntervalSeconds: 5 + c.Intn(20, "cbi"), TimeoutSeconds: 1 + c.Intn(10, "cbt"), FailureThreshold: 1 + c.Intn(4, "cbft"), SuccessThreshold: 1}
	}
	s := x.StartMicro()
	net := newStubNet(x)
	if c.Intn(4, "backends-send-early-hints") == 0 {
		net.interimAll = []int{103} // the final status is what counts, for health and for the counters
		x.Probe("interim-before-final-status")
	}
	for i := 0; i < nb; i++ {
		name := fmt.Sprintf("b%d", i)
		host := x.BackendHost(4, i+1)
		net.add(name, host, "")
		o.backends = append(o.backends, config.BackendConfig{Name: name, Address: "http://" + host, Weight: 1 + c.Intn(3, "w")})
	}
	deadlockFP := "C13/blocked"
	onErr := func(e *simrt.SchedError) {
		// a wedged proxy cannot account for anything; the root cause is C03/C08's business
		x.Violate("C03", "C03/"+e.Kind+"{lbacct}", "%s", e.Error())
		_ = deadlockFP
		x.Blocked(e, "lbacct")
	}
	var h *lbHarness
	x.Do("setup", func() { h, _ = newLBHarness(x, net, o) }, onErr)
	if h == nil {
		s.Teardown()
		return
	}
	x.Sample["config"] = fmt.Sprintf("strategy=%s backends=%d passive=%v/%d window=%ds limiter=%v breaker=%v", strategy, nb, passive, threshold, window, o.limiter, o.breaker)
	x.Logf("lbacct %s", x.Sample["config"])

	// (statuses Helios also produces itself -- 429, 503, 401 -- when they come from the backend are
	// proxied answers: counted once, in the class of their status)
	classes := []string{"ok", "s404", "s500", "unreach", "abort", "client-gone", "s204", "s429", "s503", "s401", "client-gone-early", "client-gone-mid-body"}
	var steps []string
	clientGone := func(spec reqSpec) {
		// the client disconnects while the backend is still working: the request
		// context is cancelled (as net/http does when the connection drops)
		r, id := h.newRequest(spec)
		ctx, cancel := context.WithCancel(r.Context())
		r = r.WithContext(ctx)
		rec := newRecorder()
		x.mu.Lock()
		h.reached++
		x.mu.Unlock()
		h.net.ev("inv", id, "", 0, "client-gone")
		// (the timer callback runs outside the scheduler on purpose: it touches no Helios state;
		// a timer, not a sleeping goroutine: nothing may be left asleep when the bubble ends)
		gone := time.AfterFunc(500*time.Millisecond, cancel)
		defer gone.Stop()
		func() {
			defer func() {
				if p := recover(); p != nil && p != http.ErrAbortHandler {
					x.Violate("C03", "C03/handler-panic", "request %d panicked: %v", id, p)
				}
			}()
			h.handler.ServeHTTP(rec, r)
		}()
		simrt.Yield("woke")
		h.net.ev("ret", id, "", rec.status, "client-gone")
		cancel()
	}
	// the client disconnects while the response body is being relayed: its connection is gone
	// (writes fail) and net/http cancels the request's context
	clientGoneMidBody := func(spec reqSpec) {
		r, id := h.newRequest(spec)
		ctx, cancel := context.WithCancel(r.Context())
		defer cancel()
		r = r.WithContext(ctx)
		rec := &goneRecorder{recorder: newRecorder(), gone: cancel}
		x.mu.Lock()
		h.reached++
		x.mu.Unlock()
		h.net.ev("inv", id, "", 0, "client-gone-mid-body")
		func() {
			defer func() {
				if p := recover(); p != nil && p != http.ErrAbortHandler {
					x.Violate("C03", "C03/handler-panic", "request %d panicked: %v", id, p)
				}
			}()
			h.handler.ServeHTTP(rec, r)
		}()
		simrt.Yield("woke")
		h.net.ev("ret", id, "", rec.status, "client-gone-mid-body")
	}
	runClass := func(class string, client string) {
		switch class {
		case "client-gone-mid-body":
			clientGoneMidBody(reqSpec{client: client, plan: &reqPlan{body: bytes.Repeat([]byte("streamed "), 2000)}})
		case "client-gone":
			clientGone(reqSpec{client: client, plan: &reqPlan{delay: 2 * time.Second}})
		case "client-gone-early":
			// the client has hung up before the balancer even looks at the request
			h.do(reqSpec{client: client, preCancelled: true})
		default:
			mode := class
			h.do(reqSpec{client: client, plan: &reqPlan{mode: mode}})
		}
	}
	countFaults := func(class string) {
		switch class {
		case "s500", "s503":
			x.Fault("backend-5xx")
		case "unreach":
			x.Fault("backend-unreachable")
		case "abort":
			x.Fault("backend-abort-mid-body")
		case "client-gone", "client-gone-early", "client-gone-mid-body":
			x.Fault("client-disconnect")
		}
	}

	removedNow := map[string]bool{} // removed by the operator at the moment: not in the admin list
	check := func(where string) {
		if !x.Settle(onErr) {
			return
		}
		var total, okc, failc, rl uint64
		perBackend := map[string]uint64{}
		gaugeM := map[string]int32{}
		gaugeA := map[string]int32{}
		x.Do("metrics", func() {
			m := h.lb.GetMetricsCollector().GetMetrics()
			total, okc, failc, rl = m.TotalRequests, m.SuccessfulRequests, m.FailedRequests, m.RateLimitedRequests
			for name, bm := range m.BackendMetrics {
				perBackend[name] = bm.TotalRequests
				gaugeM[name] = bm.ActiveConnections
			}
			for _, bi := range h.lb.ListBackends() {
				gaugeA[bi.Name] = bi.ActiveConnections
			}
		}, onErr)
		if x.dead {
			return
		}
		x.mu.Lock()
		reached := uint64(h.reached)
		x.mu.Unlock()
		x.Logf("check %s total=%d ok=%d fail=%d rl=%d reached=%d", where, total, okc, failc, rl, reached)
		if total != reached {
			x.Violate("C13", "C13/total-mismatch", "total_requests=%d but %d requests reached the balancer (%s)", total, reached, where)
		}
		// in-flight requests are not classified yet; at this point the only ones in flight are held
		held := uint64(0)
		net.mu.Lock()
		for _, b := range net.order {
			held += uint64(b.inflight)
		}
		net.mu.Unlock()
		if okc+failc+rl+held != total {
			x.Violate("C13", "C13/classes-do-not-add-up"+classCause(h, net), "successful(%d)+failed(%d)+rate_limited(%d)+in_flight(%d) != total_requests(%d) at %s (steps %v)", okc, failc, rl, held, total, where, steps)
		}
		abortedAt := map[string]bool{}
		for _, e := range net.snapshot() {
			if e.kind == "answered" && e.note == "abort-mid-body" {
				abortedAt[e.backend] = true
			}
		}
		net.mu.Lock()
		defer net.mu.Unlock()
		for _, b := range net.order {
			cause := "{no-aborted-response}"
			if abortedAt[b.name] {
				cause = "{aborted-response}"
			}
			// per-backend totals are recorded on completion: dispatched minus still in flight
			want := uint64(b.dispatched - b.inflight)
			if perBackend[b.name] != want {
				x.Violate("C13", "C13/per-backend-total"+cause, "backend %s: metrics total_requests=%d but it completed %d dispatched requests (%s)", b.name, perBackend[b.name], want, where)
			}
			if int(gaugeM[b.name]) != b.inflight {
				x.Violate("C13", "C13/gauge-metrics"+cause, "backend %s: metrics active_connections=%d but %d requests are in flight (%s)", b.name, gaugeM[b.name], b.inflight, where)
			}
			if int(gaugeA[b.name]) != b.inflight && !removedNow[b.name] {
				x.Violate("C13", "C13/gauge-admin"+cause, "backend %s: /v1/backends active_connections=%d but %d requests are in flight (%s)", b.name, gaugeA[b.name], b.inflight, where)
			}
		}
		x.State(fmt.Sprint(total, okc, failc, rl))
	}

	// Rare opening (it is expensive): a pool with a long provisioning history. More than a hundred
	// backends have come and gone under fresh names before the traffic starts (autoscaling churn);
	// whatever the collector keeps about them, the members of today are accounted for like any others.
	churnOdds := 60
	if x.Tier == "thorough" {
		churnOdds = 25
	}
	if c.Intn(churnOdds, "provisioning-churn") == 0 {
		n := 95 + c.Intn(30, "churn-n")
		s.StepLimit *= 4
		x.Do("churn", func() {
			for j := 0; j < n; j++ {
				name := fmt.Sprintf("ephemeral-%d", j)
				if err := h.lb.AddBackend(config.BackendConfig{Name: name, Address: fmt.Sprintf("http://10.99.%d.%d:8080", j/250, 1+j%250), Weight: 1}); err != nil {
					panic(err)
				}
				// (a metrics entry exists from the first health or request record on: make one)
				h.lb.GetMetricsCollector().UpdateBackendHealth(name, true)
				h.lb.RemoveBackend(name)
			}
		}, onErr)
		x.Fault("provisioning-churn")
		x.Probe("books-after-provisioning-churn")
	}
	nSteps := 3 + c.Intn(8, "nsteps")
	clients := []string{"192.0.2.1", "192.0.2.2", "198.51.100.7"}
	for i := 0; i < nSteps && !x.dead; i++ {
		switch c.Pick([]int{6, 4, 2, 2, 1}, "step") {
		case 4: // the operator removes a backend and adds it again under the same name: what it has
			// served so far does not disappear from the books
			b := net.order[c.Intn(len(net.order), "readd")]
			w := 1 + c.Intn(3, "w")
			x.Do("readd", func() {
				h.lb.RemoveBackend(b.name)
				if err := h.lb.AddBackend(config.BackendConfig{Name: b.name, Address: "http://" + b.host, Weight: w}); err != nil {
					panic(err)
				}
			}, onErr)
			steps = append(steps, "remove+add("+b.name+")")
		case 0: // one request of a drawn class
			class := classes[c.Intn(len(classes), "class")]
			cl := clients[c.Intn(len(clients), "client")]
			countFaults(class)
			steps = append(steps, class)
			x.Do("req", func() { runClass(class, cl) }, onErr)
		case 1: // concurrent mix
			k := 2 + c.Intn(7, "conc")
			if x.Tier == "thorough" {
				k = 2 + c.Intn(63, "conc64")
			}
			desc := "par("
			for j := 0; j < k; j++ {
				class := classes[c.Intn(len(classes), "class")]
				cl := clients[c.Intn(len(clients), "client")]
				countFaults(class)
				desc += class + " "
				s.Spawn("par", func() { runClass(class, cl) })
			}
			steps = append(steps, desc+")")
			x.RunTasks(onErr)
			x.Probe("concurrent-mix")
		case 2: // time passes (refill, windows, breaker timeout)
			d := time.Duration(1+c.Intn(12, "dt")) * time.Second
			steps = append(steps, fmt.Sprintf("time(%v)", d))
			x.Advance(d, onErr)
			continue
		case 3: // held requests: gauges must equal the number held
			k := 1 + c.Intn(3, "held")
			var plans []*reqPlan
			for j := 0; j < k && !x.dead; j++ {
				p := &reqPlan{hold: true}
				plans = append(plans, p)
				s.Spawn("held", func() { h.do(reqSpec{client: "192.0.2.9", plan: p}) })
				x.Settle(onErr)
			}
			steps = append(steps, fmt.Sprintf("held(%d)", k))
			check("while-held")
			x.Probe("gauge-while-held")
			// the operator removes a backend that still has requests in flight: they finish on
			// it, and its published gauge follows them down to zero (not below, not at once)
			var gone *stubBackend
			if len(net.order) >= 2 && c.Intn(3, "remove-while-held") == 0 {
				net.mu.Lock()
				for _, b := range net.order {
					if b.inflight > 0 {
						gone = b
						break
					}
				}
				net.mu.Unlock()
				if gone != nil {
					x.Do("remove", func() { h.lb.RemoveBackend(gone.name) }, onErr)
					removedNow[gone.name] = true
					steps = append(steps, "remove-in-flight("+gone.name+")")
					check("removed-while-held")
				}
			}
			net.mu.Lock()
			for _, p := range plans {
				p.released = true
			}
			net.mu.Unlock()
			x.RunTasks(onErr)
			if gone != nil {
				check("after-removed-drained")
				w := 1 + c.Intn(3, "w")
				x.Do("re-add", func() {
					if err := h.lb.AddBackend(config.BackendConfig{Name: gone.name, Address: "http://" + gone.host, Weight: w}); err != nil {
						panic(err)
					}
				}, onErr)
				delete(removedNow, gone.name)
			}
		}
		check(fmt.Sprintf("after-step-%d", i))
	}
	// the books are kept for as long as requests are answered: Stop() ends probing and pools, the
	// handler keeps serving what still arrives (a shutdown whose drain has not finished yet)
	if !x.dead && c.Intn(3, "requests-after-stop") == 0 {
		x.Do("stop", func() { h.lb.Stop() }, onErr)
		k := 1 + c.Intn(4, "after-stop-n")
		for j := 0; j < k && !x.dead; j++ {
			class := []string{"ok", "s500", "s404", "unreach"}[c.Intn(4, "after-stop-class")]
			cl := clients[c.Intn(len(clients), "client")]
			x.Do("req", func() { runClass(class, cl) }, onErr)
			steps = append(steps, "after-stop:"+class)
		}
		check("after-stop")
		x.Probe("requests-after-stop")
	}
	x.Sample["steps"] = steps
	if left := s.Teardown(); left > 0 {
		x.Probe("teardown-left")
	}
}

// goneRecorder: a client connection that breaks at the first body write.
type goneRecorder struct {
	*recorder
	gone func()
}

func (g *goneRecorder) Write(p []byte) (int, error) {
	if !g.wrote {
		g.WriteHeader(200)
	}
	g.gone()
	return 0, errors.New("write tcp: broken pipe")
}

// classCause names which unaccounted path a run exercised, so that distinct
// root causes get distinct fingerprints.
func classCause(h *lbHarness, net *stubNet) string {
	evs := net.snapshot()
	dispatched := map[int]bool{}
	aborted, noBackend := false, false
	for _, e := range evs {
		if e.kind == "dispatch" {
			dispatched[e.req] = true
		}
		if e.kind == "answered" && e.note == "abort-mid-body" {
			aborted = true
		}
	}
	for _, e := range evs {
		if e.kind == "ret" && e.status == 503 && !dispatched[e.req] {
			noBackend = true
		}
	}
	switch {
	case aborted && noBackend:
		return "{aborted-response+no-backend-503}"
	case aborted:
		return "{aborted-response}"
	case noBackend:
		return "{no-backend-503}"
	}
	return ""
}
