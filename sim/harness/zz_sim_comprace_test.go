package main

// Scenario "comprace" (race tier of C12): the shared-state components of Helios
// -- circuit breaker, rate limiter, WebSocket pool, metrics collector -- each
// hammered directly by 4-12 free-running goroutines under the race detector,
// with parameters that make their rare paths frequent: a breaker with
// millisecond timeouts flips through its states hundreds of times per run, the
// limiter's cleanup runs against buckets in use, the pool's cleanup and
// shutdown race with Get/Put/Close, metrics are read while they are written.
// The system-level race scenario (sysrace) reaches these paths only now and
// then (a breaker needs seconds of virtual time for one cycle); here they are
// the whole workload. The operation mix is seed-determined, the schedule is
// the Go scheduler's; in half of the runs every goroutine yields the processor
// right after releasing a lock. Violations: race-detector reports touching
// Helios frames, panics.

import (
	"github.com/0xReLogic/Helios/internal/config"
	"net/http"
	"errors"
	"fmt"
	"net"
	"strings"
	"sync"
	"time"

	"github.com/0xReLogic/Helios/internal/circuitbreaker"
	"github.com/0xReLogic/Helios/internal/loadbalancer"
	"github.com/0xReLogic/Helios/internal/metrics"
	"github.com/0xReLogic/Helios/internal/ratelimiter"
	"vsim/simrt"
)

func init() {
	register(&Scenario{Name: "comprace", Props: []string{"C12"}, Kind: "system", Run: runCompRace})
}

type raceConn struct {
	mu     sync.Mutex
	closed bool
}

func (f *raceConn) Read(b []byte) (int, error)        { return 0, net.ErrClosed }
func (f *raceConn) Write(b []byte) (int, error)       { return len(b), nil }
func (f *raceConn) Close() error                      { f.mu.Lock(); f.closed = true; f.mu.Unlock(); return nil }
func (f *raceConn) LocalAddr() net.Addr               { return &net.TCPAddr{} }
func (f *raceConn) RemoteAddr() net.Addr              { return &net.TCPAddr{} }
func (f *raceConn) SetDeadline(time.Time) error       { return nil }
func (f *raceConn) SetReadDeadline(time.Time) error   { return nil }
func (f *raceConn) SetWriteDeadline(time.Time) error  { return nil }

func runCompRace(x *X) {
	c := x.C
	x.Nontrivial = true
	simrt.FreeYieldOnUnlock.Store(c.Intn(2, "yield-on-unlock") == 1)
	defer simrt.FreeYieldOnUnlock.Store(false)
	which := []string{"breaker", "breaker", "limiter", "wspool", "metrics", "balancer"}[c.Intn(6, "component")]
	nG := 4 + c.Intn(9, "goroutines")
	nOps := 40 + c.Intn(160, "ops")
	x.Sample["config"] = fmt.Sprintf("component=%s goroutines=%d ops=%d (schedule: Go runtime, not seed-decided)", which, nG, nOps)
	x.Logf("comprace %s", x.Sample["config"])
	// per-goroutine operation scripts are drawn up front (the choice source is not for concurrent use)
	scripts := make([][]int, nG)
	for g := range scripts {
		for i := 0; i < nOps; i++ {
			scripts[g] = append(scripts[g], c.Intn(16, "op"))
		}
	}
	var wg sync.WaitGroup
	var panics []string
	var pmu sync.Mutex
	// the goroutines either finish or are blocked for good on the component's own locks: ten virtual
	// minutes tell the two apart (a bare wg.Wait would end the bubble in synctest's deadlock panic)
	wedged := false
	waitAll := func() bool {
		if wedged {
			return false
		}
		if !x.WaitFree(&wg, "C12", "hammering the "+which) {
			wedged = true
		}
		return !wedged
	}
	run := func(g int, fn func(g, i, op int)) {
		wg.Add(1)
		go func() {
			defer wg.Done()
			defer func() {
				if r := recover(); r != nil {
					pmu.Lock()
					panics = append(panics, fmt.Sprint(r))
					pmu.Unlock()
				}
			}()
			for i, op := range scripts[g] {
				fn(g, i, op)
			}
		}()
	}
	switch which {
	case "breaker":
		var notes int
		var nmu sync.Mutex
		var cb *circuitbreaker.CircuitBreaker
		withCounts := c.Intn(2, "subscriber-reads-counts") == 1
		cb = circuitbreaker.NewCircuitBreaker(circuitbreaker.Settings{
			Name: "race", MaxRequests: uint32(1 + c.Intn(3, "mr")), Interval: time.Duration(1+c.Intn(20, "interval-ms")) * time.Millisecond,
			Timeout: time.Duration(1+c.Intn(3, "timeout-ms")) * time.Millisecond, FailureThreshold: uint32(1 + c.Intn(3, "ft")), SuccessThreshold: uint32(1 + c.Intn(2, "st")),
			OnStateChange: func(name string, from, to circuitbreaker.State) {
				if withCounts {
					_, _, _ = cb.Counts()
				}
				nmu.Lock()
				notes++
				nmu.Unlock()
			}})
		boom := errors.New("backend failed")
		for g := 0; g < nG; g++ {
			run(g, func(g, i, op int) {
				switch {
				case op < 6:
					cb.Execute(func() error { return nil })
				case op < 11:
					cb.Execute(func() error { return boom })
				case op < 13:
					_ = cb.State()
					_, _, _ = cb.Counts()
				case op < 15:
					time.Sleep(time.Duration(1+op%3) * time.Millisecond)
				default:
					cb.Execute(func() error { time.Sleep(2 * time.Millisecond); return nil })
				}
			})
		}
		if !waitAll() {
			return
		}
		// a pattern the mix above rarely produces: one failure short of the threshold, a pause longer
		// than the counting interval, then everybody at once (the expired count is cleared by
		// whoever comes first -- while the others are reading it)
		iv := time.Duration(1+c.Intn(20, "interval-ms-again")) * time.Millisecond
		_ = iv
		for round := 0; round < 6; round++ {
			time.Sleep(25 * time.Millisecond) // past timeout and interval: back to a quiet breaker
			cb.Execute(func() error { return nil })
			cb.Execute(func() error { return nil })
			cb.Execute(func() error { return boom })
			time.Sleep(22 * time.Millisecond) // longer than any interval drawn above
			gate := make(chan struct{})
			var wg2 sync.WaitGroup
			for g := 0; g < nG; g++ {
				wg2.Add(1)
				go func() {
					defer wg2.Done()
					<-gate
					cb.Execute(func() error { return nil })
				}()
			}
			close(gate)
			wg2.Wait()
		}
		nmu.Lock()
		if notes > 2 {
			x.Probe("breaker-cycled")
		}
		nmu.Unlock()
	case "limiter":
		born := time.Now()
		rl := ratelimiter.NewTokenBucketRateLimiter(1+c.Intn(4, "max"), time.Duration(1+c.Intn(50, "refill-ms"))*time.Millisecond)
		clients := []string{"10.0.0.1", "10.0.0.2", "2001:db8::1", "10.0.0.3"}
		for g := 0; g < nG; g++ {
			run(g, func(g, i, op int) {
				switch {
				case op < 12:
					rl.Allow(clients[(g+op)%len(clients)])
				case op < 13 && (g+i)%2 == 0:
					// wake up at the very instant of the limiter's next cleanup tick (virtual time only moves
					// when everybody is asleep, so a sweep otherwise always runs alone) and come straight
					// back as a client the sweep is looking at
					const tick = 10 * time.Minute
					time.Sleep(tick - time.Since(born)%tick)
					rl.Allow(clients[g%len(clients)])
				case op < 13:
					time.Sleep(time.Duration(op) * 7 * time.Minute) // across cleanup ticks and bucket expiry
				case op < 14:
					rl.Allow(fmt.Sprintf("10.8.0.%d", i)) // a client nobody has seen yet, first seen by several goroutines at once
				default:
					rl.Allow(fmt.Sprintf("10.9.%d.%d", g, i)) // ever new clients: the map grows and is cleaned
				}
			})
		}
		if !waitAll() {
			return
		}
		x.Probe("limiter-hammered")
	case "wspool":
		pool := loadbalancer.NewWebSocketPool(c.Intn(4, "maxidle"), 100, time.Duration(1+c.Intn(40, "idle-s"))*time.Second)
		backends := []string{"b0", "b1"}
		for g := 0; g < nG; g++ {
			var held []net.Conn
			run(g, func(g, i, op int) {
				b := backends[(g+op)%2]
				switch {
				case op < 4:
					if cn := pool.Get(b); cn != nil {
						held = append(held, cn)
					}
				case op < 8:
					pool.Put(b, &raceConn{})
				case op < 10 && len(held) > 0:
					pool.Put(b, held[len(held)-1])
					held = held[:len(held)-1]
				case op < 12 && len(held) > 0:
					pool.Close(b, held[len(held)-1])
					held = held[:len(held)-1]
				case op < 13:
					pool.Stats(b)
				case op < 15:
					time.Sleep(time.Duration(5+op) * time.Second) // cleanup ticks, idle expiry
				default:
					if g == 0 && i > len(scripts[g])/2 {
						pool.Shutdown()
					}
				}
			})
		}
		if !waitAll() {
			return
		}
		pool.Shutdown()
		x.Probe("wspool-hammered")
	case "balancer":
		// the balancer's membership, strategy and health state under picks, listings, adds, removes,
		// strategy switches and ejections from many goroutines (no request is proxied: picks only)
		cfg := &config.Config{}
		cfg.Server.Port = 8080
		cfg.Logging.Level = "fatal"
		cfg.LoadBalancer.Strategy = strategies[c.Intn(5, "strategy")]
		cfg.HealthChecks.Passive = config.PassiveHealthCheckConfig{Enabled: true, UnhealthyThreshold: 1, UnhealthyTimeout: 1}
		for i := 0; i < 3; i++ {
			cfg.Backends = append(cfg.Backends, config.BackendConfig{Name: fmt.Sprintf("b%d", i), Address: fmt.Sprintf("http://10.30.0.%d:80", i+1), Weight: 1 + i})
		}
		lb, err := loadbalancer.NewLoadBalancer(cfg)
		if err != nil {
			panic(err)
		}
		for g := 0; g < nG; g++ {
			run(g, func(g, i, op int) {
				switch {
				case op < 4:
					r, _ := http.NewRequest("GET", "http://helios.test/", nil)
					r.RemoteAddr = fmt.Sprintf("198.51.100.%d:4000", 1+(g+i)%50)
					if b := lb.NextBackend(r); b != nil && op == 0 {
						lb.IsBackendHealthy(b)
					}
				case op < 8:
					for _, bi := range lb.ListBackends() {
						_ = bi.Healthy
					}
				case op < 10:
					name := fmt.Sprintf("dyn%d", (g+i)%2)
					if op == 8 {
						lb.AddBackend(config.BackendConfig{Name: name, Address: fmt.Sprintf("http://10.30.1.%d:80", 1+(g+i)%2), Weight: 1 + i%3})
					} else {
						lb.RemoveBackend(name)
					}
				case op < 11:
					lb.SetStrategy(strategies[(g+i)%5])
				case op < 13:
					r, _ := http.NewRequest("GET", "http://helios.test/", nil)
					r.RemoteAddr = "198.51.100.77:4000"
					if b := lb.NextBackend(r); b != nil {
						lb.MarkBackendUnhealthy(b, time.Duration(1+op)*time.Millisecond)
					}
				default:
					time.Sleep(time.Duration(1+op%3) * time.Millisecond)
				}
			})
		}
		if !waitAll() {
			return
		}
		lb.Stop()
		x.Probe("balancer-hammered")
	case "metrics":
		mc := metrics.NewMetricsCollector()
		names := []string{"b0", "b1", "b2"}
		for g := 0; g < nG; g++ {
			run(g, func(g, i, op int) {
				n := names[(g+op)%3]
				switch {
				case op < 3:
					mc.RecordRequest()
					mc.RecordResponse(op%2 == 0, time.Duration(op)*time.Millisecond)
				case op < 6:
					mc.RecordBackendRequest(n, op%2 == 0, time.Duration(op)*time.Millisecond)
				case op < 8:
					mc.UpdateBackendHealth(n, op%2 == 0)
				case op < 10:
					mc.UpdateBackendConnections(n, int32(op))
				case op < 11:
					mc.RecordRateLimitedRequest()
				case op < 12:
					mc.UpdateCircuitBreakerState("cb", []string{"CLOSED", "OPEN", "HALF-OPEN"}[op%3], metrics.CircuitBreakerCounts{})
				case op < 15:
					m := mc.GetMetrics()
					_ = len(m.BackendMetrics) + len(m.CircuitBreakerMetrics)
					_ = m.Uptime
				default:
					time.Sleep(time.Millisecond)
				}
			})
		}
		if !waitAll() {
			return
		}
		x.Probe("metrics-hammered")
	}
	x.Probe("race-run-completed")
	defer simrt.TeardownFree() // (violations are muted once teardown has begun)
	pmu.Lock()
	for _, p := range panics {
		key := p
		if len(key) > 60 {
			key = key[:60]
		}
		x.Violate("C12", "C12/panic{"+key+"}", "a goroutine hammering the %s panicked: %s", which, p)
	}
	pmu.Unlock()
	for _, rep := range readNewRaceReports() {
		sites := raceSites(rep)
		if len(sites) == 0 {
			x.Probe("race-report-without-helios-frame")
			continue
		}
		short := rep
		if len(short) > 1500 {
			short = short[:1500]
		}
		x.Violate("C12", "C12/race{"+strings.Join(uniqStrings(sites), "+")+"}", "data race between %v (component stress: %s):\n%s", sites, which, short)
	}
}
