package main

// Scenario "sysids": request-ID / trace-ID on every response path behind the
// real server (system part of C16): proxied, 429 (limiter), 503 (no healthy
// backend, breaker open), 413 (size_limit), 401 (custom-auth).

import (
	"fmt"
	"strings"

	"github.com/0xReLogic/Helios/internal/config"
	"github.com/0xReLogic/Helios/internal/logging"
)

func init() {
	register(&Scenario{Name: "sysids", Props: []string{"C16"}, Kind: "system", Run: runSysIDs})
}

func runSysIDs(x *X) {
	c := x.C
	o := sysOpts{strategy: strategies[c.Intn(5, "strategy")], nBackends: 1}
	o.timeouts = config.TimeoutConfig{Read: 30, Write: 30, Idle: 30, BackendRead: 10, Handler: 60}
	o.logging.RequestID.Enabled = c.Intn(5, "rid") != 0
	o.logging.Trace.Enabled = c.Intn(5, "tid") != 0
	if c.Intn(2, "custom") == 1 {
		o.logging.RequestID.Header = "X-Correlation-Id"
		o.logging.Trace.Header = "X-Trace-Ctx"
	}
	o.passive, o.threshold, o.window = true, 1, 30
	o.limiter = &config.RateLimitConfig{Enabled: true, MaxTokens: 6 + c.Intn(4, "tokens"), RefillRate: 1000}
	if c.Intn(2, "breaker") == 1 {
		o.breaker = &config.CircuitBreakerConfig{Enabled: true, MaxRequests: 1, IntervalSeconds: 60, TimeoutSeconds: 60, FailureThreshold: 1, SuccessThreshold: 1}
	}
	o.plugins = []config.PluginConfig{
		{Name: "custom-auth", Config: map[string]interface{}{"apiKey": "sekret"}},
		{Name: "size_limit", Config: map[string]interface{}{"max_request_body": 8, "max_response_body": 1 << 20}},
	}
	if c.Intn(2, "logging-plugin") == 1 {
		o.plugins = append([]config.PluginConfig{{Name: "logging"}}, o.plugins...)
	}
	env, err := newSysEnv(x, o)
	if err != nil {
		panic(err)
	}
	defer env.close()
	cl := env.addClient("198.51.100.40:41000")
	rh, th := logging.RequestHeaderName(env.cfg.Logging), logging.TraceHeaderName(env.cfg.Logging)
	type want struct {
		label  string
		status int
		sup    string
	}
	var wants []want
	var all []*exchange
	add := func(label string, status int, mut func(ex *exchange)) {
		ex := env.newExchange(cl)
		ex.method, ex.target = "GET", "/ids/"+label
		ex.hdr = []hdrKV{{"X-API-Key", "sekret"}}
		ex.resp = &respScript{status: 200, framing: "cl", hdr: []hdrKV{{"Content-Type", "text/plain"}}, body: []byte("ok")}
		sup := ""
		if c.Intn(3, "supply") == 0 {
			// (also white space by Unicode's book that HTTP's header parser leaves alone, and a Latin-1 byte)
			sup = []string{"client-id-1", "abc 123", strings.Repeat("z", 200), "trail-nbsp\u00a0", "\u2003lead-emsp", "caf\xe9-42"}[c.Intn(6, "supv")]
			ex.hdr = append(ex.hdr, hdrKV{rh, sup}, hdrKV{th, sup})
		}
		mut(ex)
		all = append(all, ex)
		wants = append(wants, want{label, status, sup})
	}
	add("proxied", 200, func(ex *exchange) {})
	add("unauthorized", 401, func(ex *exchange) { ex.hdr = ex.hdr[1:] })
	add("too-large", 413, func(ex *exchange) { ex.method, ex.body = "POST", []byte("0123456789abcdef") })
	add("backend-500", 500, func(ex *exchange) { ex.resp.status = 500 })
	add("no-healthy-or-open", 503, func(ex *exchange) {})
	for i := 0; i < 12; i++ {
		add(fmt.Sprintf("burst-%d", i), 0, func(ex *exchange) {})
	}
	x.Sample["config"] = fmt.Sprintf("request_id=%v(%s) trace=%v(%s) breaker=%v", o.logging.RequestID.Enabled, rh, o.logging.Trace.Enabled, th, o.breaker != nil)
	x.Logf("sysids %s", x.Sample["config"])
	env.drive(driveOpts{fragment: true})
	seen429 := false
	for i, ex := range all {
		w := wants[i]
		got := ex.got
		if !ex.done || got == nil || got.err != "" {
			x.Violate("C16", "C16/exchange-failed", "exchange %s did not complete: %+v", w.label, got)
			continue
		}
		if got.status == 429 {
			seen429 = true
			x.Probe("path-429")
		}
		if w.status != 0 && got.status != w.status && got.status != 429 {
			// not an identifier problem, but the run is not what it was meant to be
			x.Probe("unexpected-status")
		}
		switch got.status {
		case 401:
			x.Probe("path-401")
		case 413:
			x.Probe("path-413")
		case 503:
			x.Probe("path-503")
		}
		for _, k := range []struct {
			kind, h string
			on     bool
		}{{"request-id", rh, o.logging.RequestID.Enabled}, {"trace-id", th, o.logging.Trace.Enabled}} {
			v := got.hdr.Get(k.h)
			path := fmt.Sprintf("status=%d", got.status)
			if !k.on {
				if w.sup == "" && v != "" {
					x.Violate("C16", "C16/disabled-but-touched{"+k.kind+"}", "%s disabled but %s response carries %s=%q", k.kind, w.label, k.h, v)
				}
				continue
			}
			if v == "" {
				x.Violate("C16", "C16/missing-on-response{"+k.kind+","+path+"}", "%s response (%s) carries no %s", w.label, path, k.h)
				continue
			}
			if w.sup != "" && v != w.sup {
				x.Violate("C16", "C16/client-id-altered{"+k.kind+"}", "%s: client supplied %q, got back %q", w.label, w.sup, v)
			}
			for _, sr := range ex.seen {
				if bv := sr.hdr.Get(k.h); bv != v {
					x.Violate("C16", "C16/backend-client-mismatch{"+k.kind+"}", "%s: backend saw %s=%q, client got %q", w.label, k.h, bv, v)
				}
			}
		}
	}
	_ = seen429
}
