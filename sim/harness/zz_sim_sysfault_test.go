package main

// Scenario "sysfault": fault containment (C03) and accounting at system level
// (C13) over the real stack. Swarm configuration (strategy, breaker, limiter,
// health checks, plugins, small timeouts); a drawn fault sequence over the
// property's alphabet {refuse, hang-headers, reset-after-headers, short-body,
// garbage, 5xx, slow-body, client-abort-upload, client-abort-download} plus
// dial black-holes and stalls after headers; then all faults stop and a
// recovery request must be served normally.

import (
	"bytes"
	"fmt"
	"net/http"
	"strings"
	"sync/atomic"
	"time"

	"github.com/0xReLogic/Helios/internal/config"
	"github.com/0xReLogic/Helios/internal/plugins"
	"vsim/simrt"
)

var simCountHook func()

func init() {
	register(&Scenario{Name: "sysfault", Props: []string{"C03", "C13", "C01", "C15"}, Kind: "system", Run: runSysFault})
	// innermost counting plugin: requests that reached the balancer (public registration API)
	plugins.RegisterBuiltin("sim-count", func(name string, cfg map[string]interface{}) (plugins.Middleware, error) {
		return func(next http.Handler) http.Handler {
			return http.HandlerFunc(func(w http.ResponseWriter, r *http.Request) {
				if f := simCountHook; f != nil {
					f()
				}
				next.ServeHTTP(w, r)
			})
		}, nil
	})
}

var faultAlphabet = []string{"none", "refuse", "hang-headers", "rst-after-headers", "short-body", "garbage", "5xx", "slow-body", "client-abort-upload", "client-abort-download", "stall-mid-body", "dial-blackhole", "odd-status", "client-stall-upload"}

func runSysFault(x *X) {
	c := x.C
	o := sysOpts{strategy: strategies[c.Intn(5, "strategy")], nBackends: 1 + c.Intn(3, "nbackends")}
	// small timeouts so that boundaries are reached quickly
	to := config.TimeoutConfig{Read: 2 + c.Intn(6, "t-read"), Write: 3 + c.Intn(8, "t-write"), Idle: 5 + c.Intn(20, "t-idle"), Handler: 2 + c.Intn(9, "t-handler"),
		BackendDial: 1 + c.Intn(4, "t-dial"), BackendRead: 1 + c.Intn(5, "t-bread"), BackendIdle: 5 + c.Intn(30, "t-bidle")}
	// now and then a timeout is left out of the configuration: the documented default applies
	// (README "Timeout Configuration": read 15, write 15, handler 30, backend_dial 10, backend_read 30)
	eff := to
	if c.Intn(4, "unset-timeout") == 0 {
		switch c.Intn(5, "which-unset") {
		case 0:
			to.Handler, eff.Handler = 0, 30
		case 1:
			to.BackendRead, eff.BackendRead = 0, 30
		case 2:
			to.BackendDial, eff.BackendDial = 0, 10
		case 3:
			to.Read, eff.Read = 0, 15
		case 4:
			to.Write, eff.Write = 0, 15
		}
		x.Probe("timeout-left-unset")
	}
	o.timeouts = to
	to = eff // the oracles below use the effective values
	if c.Intn(2, "passive") == 1 {
		o.passive, o.threshold, o.window = true, 1+c.Intn(3, "threshold"), 1+c.Intn(8, "window")
	}
	if c.Intn(3, "active") == 0 {
		o.active, o.interval, o.ptimeout = true, 2+c.Intn(5, "interval"), 1
		if !o.passive {
			o.window = 1 + c.Intn(8, "window")
		}
	}
	if c.Intn(3, "breaker") == 0 {
		o.breaker = &config.CircuitBreakerConfig{Enabled: true, MaxRequests: 1 + c.Intn(3, "mr"), IntervalSeconds: 5 + c.Intn(20, "cbi"), TimeoutSeconds: 1 + c.Intn(6, "cbt"), FailureThreshold: 1 + c.Intn(4, "cbft"), SuccessThreshold: 1}
		// (several successes to close, with the trial budget left to its default: what is not written in a
		// configuration is part of it)
		if c.Intn(3, "cb-success-threshold") == 0 {
			o.breaker.SuccessThreshold = 2 + c.Intn(2, "cbst")
			o.breaker.MaxRequests = []int{0, o.breaker.SuccessThreshold, o.breaker.SuccessThreshold + 1}[c.Intn(3, "cb-mr-unset")]
		}
	}
	if c.Intn(4, "limiter") == 0 {
		o.limiter = &config.RateLimitConfig{Enabled: true, MaxTokens: 3 + c.Intn(10, "tokens"), RefillRate: 1 + c.Intn(3, "refill")}
	}
	var chain []config.PluginConfig
	if c.Intn(3, "p-logging") == 0 {
		chain = append(chain, config.PluginConfig{Name: "logging"})
	}
	if c.Intn(4, "p-size") == 0 {
		chain = append(chain, config.PluginConfig{Name: "size_limit", Config: map[string]interface{}{"max_request_body": 1 << 20, "max_response_body": 1 << 20}})
	}
	if c.Intn(4, "p-headers") == 0 {
		chain = append(chain, config.PluginConfig{Name: "headers", Config: map[string]interface{}{"set": map[string]interface{}{"X-App": "Helios"}}})
	}
	withGzip := c.Intn(3, "p-gzip") == 0
	if withGzip {
		// a buffering plugin in the path of the faults: whatever a broken exchange leaves behind
		// in it must not show up in anybody else's response
		gz := config.PluginConfig{Name: "gzip", Config: map[string]interface{}{"level": float64(-1 + c.Intn(11, "gz-level")), "min_size": float64([]int{0, 16, 4096}[c.Intn(3, "gz-min")]), "content_types": []interface{}{"text/", "application/json"}}}
		k := c.Intn(len(chain)+1, "gz-pos")
		chain = append(chain[:k], append([]config.PluginConfig{gz}, chain[k:]...)...)
		x.Probe("gzip-in-the-path-of-faults")
	}
	chain = append(chain, config.PluginConfig{Name: "sim-count"})
	o.plugins = chain
	o.logging.RequestID.Enabled = c.Intn(2, "rid") == 1

	// swarm: a random subset of fault kinds is enabled in this run
	var enabled []string
	for _, f := range faultAlphabet[1:] {
		if c.Intn(3, "enable-"+f) == 0 {
			enabled = append(enabled, f)
		}
	}
	if x.Prop == "C13" && len(enabled) > 3 {
		enabled = enabled[:3]
	}
	var reachedN atomic.Int64
	simCountHook = func() { reachedN.Add(1) }
	defer func() { simCountHook = nil }()
	env, err := newSysEnv(x, o)
	if err != nil {
		panic(err)
	}
	defer env.close()
	nClients := 1 + c.Intn(3, "nclients")
	for i := 0; i < nClients; i++ {
		env.addClient(fmt.Sprintf("198.51.100.%d:5%04d", 20+i, i))
	}
	k := 2 + c.Intn(5, "nfaultops")
	if x.Tier == "thorough" {
		k = 2 + c.Intn(11, "nfaultops12")
	}
	var all []*exchange
	var faults []string
	refused := map[int]bool{}
	for i := 0; i < k; i++ {
		cl := env.clients[c.Intn(nClients, "client")]
		ex := env.newExchange(cl)
		ex.method = []string{"GET", "POST", "PUT", "GET"}[c.Intn(4, "method")]
		ex.target = fmt.Sprintf("/f/%d", i)
		if ex.method != "GET" {
			ex.body = genBody(x, "req", 64)
			ex.chunked = c.Intn(3, "chunked") == 0
		}
		ex.newConn = c.Intn(3, "newconn") == 0
		if withGzip && c.Intn(3, "accept-gzip") != 0 {
			ex.hdr = append(ex.hdr, hdrKV{"Accept-Encoding", "gzip"})
		}
		if ex.method == "GET" && c.Intn(6, "upgrade-request") == 0 {
			// a protocol-upgrade request (Helios exempts these from the handler timeout, tunnels
			// being long-lived): whatever the backend does to it, the backend timeouts still apply
			ex.hdr = append(ex.hdr, hdrKV{"Connection", "Upgrade"}, hdrKV{"Upgrade", "websocket"})
			x.Probe("upgrade-request-under-faults")
		}
		if o.breaker != nil && c.Intn(3, "pause-past-breaker-timeout") == 0 {
			// let an open breaker reach half-open, so that this (possibly faulty) exchange is a trial
			ex.pause = time.Duration(o.breaker.TimeoutSeconds)*time.Second + 100*time.Millisecond
		}
		rs := &respScript{status: 200, framing: []string{"cl", "chunked"}[c.Intn(2, "framing")], hdr: []hdrKV{{"Content-Type", "text/plain"}}}
		rs.body = genBody(x, "resp", 64)
		ex.resp = rs
		f := "none"
		if len(enabled) > 0 && c.Intn(4, "fault?") != 0 {
			f = enabled[c.Intn(len(enabled), "fault")]
		}
		switch f {
		case "refuse":
			// every backend refuses connections while this exchange is in progress
			refused[ex.id] = true
		case "dial-blackhole":
			refused[ex.id] = true
		case "hang-headers", "rst-after-headers", "short-body", "garbage", "odd-status":
			rs.fault = f
		case "5xx":
			rs.status = []int{500, 502, 503, 504}[c.Intn(4, "5xx")]
		case "slow-body":
			rs.fault = "slow-body"
			if len(rs.body) < 8 {
				rs.body = []byte("slow body payload")
			}
			n := 2 + c.Intn(4, "slow-n")
			for j := 0; j < n; j++ {
				rs.steps = append(rs.steps, respStep{kind: "write", n: 1 + len(rs.body)/(n+1)}, respStep{kind: "sleep", d: time.Duration(200+c.Intn(1500, "slow-ms")) * time.Millisecond})
			}
		case "stall-mid-body":
			rs.fault = "stall-mid-body"
			if len(rs.body) < 8 {
				rs.body = []byte("stalling body payload")
			}
			rs.steps = []respStep{{kind: "write", n: len(rs.body) / 2}, {kind: "hang"}}
		case "client-abort-upload", "client-stall-upload":
			// (stall: the client stops in the middle of its body and keeps the connection open --
			// server.timeouts.read is what ends that)
			ex.stallUpload = f == "client-stall-upload"
			if len(ex.body) < 2 {
				ex.method, ex.body = "POST", genBody(x, "req2", 64)
				if len(ex.body) < 2 {
					ex.body = []byte("upload body to abort")
				}
			}
			ex.abortUploadAt = c.Intn(len(ex.body), "abort-at")
		case "client-abort-download":
			if len(rs.body) < 2 {
				rs.body = []byte("download body to abort")
			}
			ex.abortDownloadAt = 1 + c.Intn(len(rs.body), "abort-at")
			// give the client a chance to see partial data: send it in two writes with a pause
			rs.steps = []respStep{{kind: "write", n: ex.abortDownloadAt}, {kind: "sleep", d: 300 * time.Millisecond}}
		}
		if f != "none" {
			x.Fault(f)
		}
		faults = append(faults, f)
		all = append(all, ex)
	}
	x.Sample["config"] = fmt.Sprintf("strategy=%s backends=%d timeouts=%+v passive=%v/%d/%ds active=%v breaker=%v limiter=%v plugins=%d clients=%d", o.strategy, o.nBackends, to, o.passive, o.threshold, o.window, o.active, o.breaker != nil, o.limiter != nil, len(chain), nClients)
	x.Sample["faults"] = faults
	x.Logf("sysfault %s faults=%v", x.Sample["config"], faults)

	// listener modes follow the exchanges that asked for refuse / blackhole
	setMode := func() {
		refuse, hang := false, false
		env.mu.Lock()
		for i, ex := range all {
			if refused[ex.id] && ex.started && !ex.done {
				if faults[i] == "refuse" {
					refuse = true
				} else {
					hang = true
				}
			}
		}
		env.mu.Unlock()
		for _, b := range env.backends {
			b.ln.SetMode(refuse, hang)
		}
	}
	// long enough for every exchange of the sequence to run into its bound one after the other
	budget := 3*time.Minute + time.Duration(len(all))*time.Duration(to.Read+to.Write+to.BackendDial+to.BackendRead+to.Handler+1)*time.Second
	ok := env.drive(driveOpts{fragment: true, delays: true, maxVirtual: budget,
		extra: func() []string { setMode(); return nil }})
	setMode()
	for _, p := range stdLogWatcher.take() {
		if strings.Contains(p, "invalid WriteHeader code 99") {
			// the injected out-of-range status: it is net/http's server that refuses to write it;
			// the exchange ends with a closed connection, which is an allowed ending
			x.Probe("odd-status-refused-by-net/http")
			continue
		}
		x.Violate("C03", "C03/panic-serving", "net/http reported: %s", p)
	}
	// a deliberately generous sum of every configured timeout: only an unbounded hang is flagged
	bound := time.Duration(to.Read+to.Write+to.BackendDial+to.BackendRead+to.Handler)*time.Second + time.Second
	wedged := false
	checkWedge := func() {
		waitQuiet()
		if ws := simrt.FreeLockWaiters(); len(ws) > 0 && !wedged {
			wedged = true
			env.wedged = true
			key := ws
			if cyc := simrt.FreeLockCycle(); cyc != nil {
				key = cyc
			}
			x.Violate("C03", "C03/deadlock{"+strings.Join(key, "+")+"}", "request goroutines are blocked for good on Helios locks (cycle at %v; all waiters %v) after faults %v: the proxy is wedged", key, ws, faults)
		}
	}
	if !ok {
		checkWedge()
	}
	for i, ex := range all {
		if wedged {
			break // one root cause; do not fingerprint every victim
		}
		if !ex.started {
			continue
		}
		if !ex.done && x.Now()-ex.startedAt <= bound {
			x.Probe("driver-budget-ended-before-bound")
			continue // the world was not run long enough to judge this one
		}
		if !ex.done {
			x.Violate("C03", "C03/unbounded-request{"+faults[i]+"}", "exchange %d (%s, fault %s) had not ended %v after it started (read+write+backend_dial+backend_read+handler+1s = %v)", ex.id, ex.method, faults[i], x.Now()-ex.startedAt, bound)
			continue
		}
		if d := ex.endedAt - ex.startedAt; d > bound {
			x.Violate("C03", "C03/request-exceeded-timeouts{"+faults[i]+"}", "exchange %d (fault %s) took %v, configured bound %v", ex.id, faults[i], d, bound)
		} else if hb := 2*time.Duration(to.BackendDial+to.BackendRead)*time.Second + 2*time.Second; faults[i] == "hang-headers" && d > hb {
			// a backend that takes the request and never answers is what backend_read is for: the
			// request ends when that timeout fires (twice the dial+read allowance covers one
			// transparent retry on a stale pooled connection), not at some later, larger timeout
			x.Violate("C03", "C03/backend-timeout-not-applied{hang-headers}", "exchange %d: the backend never sent a response head; the request ended after %v although backend_dial=%ds and backend_read=%ds (allowed here: %v)", ex.id, d, to.BackendDial, to.BackendRead, hb)
		}
		// a backend that took the request and never sent a response head has not answered: however the
		// request ends (backend_read, the handler timeout), the client is not told it succeeded
		if faults[i] == "hang-headers" && ex.got != nil && ex.got.err == "" && ex.got.status/100 == 2 {
			x.Violate("C03", "C03/success-without-a-backend-answer{hang-headers}", "exchange %d: the backend never sent a response head; after %v the client received %d with %d body bytes (backend_read=%ds, handler=%ds)", ex.id, ex.endedAt-ex.startedAt, ex.got.status, len(ex.got.body), to.BackendRead, to.Handler)
		}
		// C01: a response the backend did not finish (it closed the connection before the declared
		// length or the last chunk, or stalled until Helios gave up on it) is not presented to the
		// client as a complete one: the client must be able to tell, whatever the framing
		if (faults[i] == "short-body" || faults[i] == "stall-mid-body") && ex.method != "HEAD" && ex.resp != nil && ex.got != nil && ex.got.status == 200 {
			if ex.got.err == "" {
				acceptsGzip := false
				for _, kv := range ex.hdr {
					if kv.K == "Accept-Encoding" {
						acceptsGzip = true
					}
				}
				if withGzip && acceptsGzip {
					// the gzip plugin had the response in its buffer: whatever it does with a body that
					// never ended, the client must not get a well-formed answer made of a part of it
					x.Violate("C15", "C15/truncated-response-presented-as-complete{"+faults[i]+","+ex.resp.framing+"}", "exchange %d (gzip plugin in the chain, client accepts gzip): the backend ended its %s-framed response early (fault %s); the client received status 200, Content-Encoding %q and %d body bytes followed by a clean end of the response", ex.id, ex.resp.framing, faults[i], ex.got.hdr.Get("Content-Encoding"), len(ex.got.body))
				}
				x.Violate("C01", "C01/truncated-response-presented-as-complete{"+faults[i]+","+ex.resp.framing+"}", "exchange %d: the backend ended its %s-framed response early (fault %s); the client received status 200 and %d body bytes followed by a clean end of the response", ex.id, ex.resp.framing, faults[i], len(ex.got.body))
			} else {
				x.Probe("truncated-response-seen-as-truncated")
			}
		}
		if faults[i] == "none" && ex.got != nil && ex.got.err == "" && ex.got.status == 200 {
			x.Probe("clean-exchange-ok")
			if ex.resp != nil && ex.method != "HEAD" {
				checkCleanBody(x, ex, "clean exchange between faults", faults)
			}
		}
	}
	_ = ok

	// ---- recovery ------------------------------------------------------------------
	for _, b := range env.backends {
		b.ln.SetMode(false, false)
	}
	wait := time.Duration(o.window)*time.Second + 2*time.Second
	if o.breaker != nil {
		if d := time.Duration(o.breaker.TimeoutSeconds)*time.Second + time.Second; d > wait {
			wait = d
		}
	}
	if o.limiter != nil {
		if d := time.Duration(o.limiter.RefillRate*o.limiter.MaxTokens) * time.Second; d > wait {
			wait = d
		}
	}
	if o.active {
		wait += time.Duration(o.interval+o.ptimeout) * time.Second
	}
	// let the timeouts of whatever is still hanging expire as well
	wait += bound
	env.drive(driveOpts{idleFor: wait}) // probes and timeouts keep running while time passes
	rc := env.addClient("198.51.100.99:59999")
	okCount := 0
	var statuses []int
	nRec := 3
	if o.breaker != nil {
		nRec = 4 + o.breaker.MaxRequests
	}
	var recs []*exchange
	for i := 0; i < nRec; i++ {
		ex := env.newExchange(rc)
		ex.method, ex.target = "GET", fmt.Sprintf("/recover/%d", i)
		if o.limiter != nil && i > 0 {
			ex.pause = time.Duration(o.limiter.RefillRate)*time.Second + time.Millisecond // never outrun the refill
		}
		ex.resp = &respScript{status: 200, framing: "cl", hdr: []hdrKV{{"Content-Type", "text/plain"}}, body: []byte(fmt.Sprintf("recovered-%d", i))}
		if withGzip && i%2 == 0 {
			ex.hdr = append(ex.hdr, hdrKV{"Accept-Encoding", "gzip"})
		}
		recs = append(recs, ex)
	}
	env.drive(driveOpts{maxVirtual: 2 * time.Minute})
	for _, ex := range recs {
		st := 0
		if ex.got != nil {
			st = ex.got.status
		}
		statuses = append(statuses, st)
		if ex.done && ex.got != nil && ex.got.err == "" && st == 200 {
			if checkCleanBody(x, ex, "recovery request", faults) {
				okCount++
			}
		}
	}
	last := recs[len(recs)-1]
	if !last.done {
		checkWedge()
	}
	if wedged {
		// already reported with its root cause
	} else if !(last.done && last.got != nil && last.got.status == 200 && last.got.err == "") {
		cause := "error-status"
		if !last.done {
			cause = "request-hangs"
		}
		x.Violate("C03", "C03/no-recovery{"+cause+"}", "after the fault sequence %v stopped and %v passed, recovery requests to healthy backends returned %v (last done=%v): the proxy did not return to normal service", faults, wait, statuses, last.done)
	} else {
		x.Probe("recovered")
	}
	for _, p := range stdLogWatcher.take() {
		if strings.Contains(p, "invalid WriteHeader code 99") {
			// the injected out-of-range status: it is net/http's server that refuses to write it;
			// the exchange ends with a closed connection, which is an allowed ending
			x.Probe("odd-status-refused-by-net/http")
			continue
		}
		x.Violate("C03", "C03/panic-serving", "net/http reported: %s", p)
	}

	// ---- C13 at the final quiescent point ----------------------------------------
	allDone := true
	for _, ex := range append(append([]*exchange{}, all...), recs...) {
		if ex.started && !ex.done {
			allDone = false
		}
	}
	if allDone && x.Want("C13") {
		waitQuiet()
		m := env.lb.GetMetricsCollector().GetMetrics()
		if reached := int(reachedN.Load()); int(m.TotalRequests) != reached {
			x.Violate("C13", "C13/total-mismatch", "total_requests=%d but %d requests reached the balancer", m.TotalRequests, reached)
		}
		if m.SuccessfulRequests+m.FailedRequests+m.RateLimitedRequests != m.TotalRequests {
			x.Violate("C13", "C13/classes-do-not-add-up{system}", "successful(%d)+failed(%d)+rate_limited(%d) != total_requests(%d) after faults %v", m.SuccessfulRequests, m.FailedRequests, m.RateLimitedRequests, m.TotalRequests, faults)
		}
		for _, bi := range env.lb.ListBackends() {
			if bi.ActiveConnections != 0 {
				x.Violate("C13", "C13/gauge-admin{system}", "backend %s: active_connections=%d while idle (faults %v)", bi.Name, bi.ActiveConnections, faults)
			}
		}
		for name, bm := range m.BackendMetrics {
			if bm.ActiveConnections != 0 {
				x.Violate("C13", "C13/gauge-metrics{system}", "backend %s: metrics active_connections=%d while idle (faults %v)", name, bm.ActiveConnections, faults)
			}
		}
		x.Probe("accounting-checked")
	}
	x.State(o.strategy, strings.Join(faults, ","))
}

// checkCleanBody: a request that met no fault and was answered 200 "succeeds normally" only if
// the client can read exactly the backend's body out of it (decoded by the Content-Encoding it
// was labelled with).
func checkCleanBody(x *X, ex *exchange, what string, faults []string) bool {
	body := ex.got.body
	if strings.EqualFold(strings.Join(ex.got.hdr["Content-Encoding"], ","), "gzip") {
		dec, err := gunz(body)
		if err != nil {
			x.Violate("C03", "C03/response-damaged-after-faults{undecodable}", "%s %d after faults %v: 200 labelled gzip that does not decode: %v", what, ex.id, faults, err)
			return false
		}
		body = dec
	}
	if !bytes.Equal(body, ex.resp.body) {
		x.Violate("C03", "C03/response-damaged-after-faults{body-differs}", "%s %d after faults %v: answered 200 but the body the client reads (%d bytes, %q...) is not the backend's (%d bytes)", what, ex.id, faults, len(body), trunc(string(body), 40), len(ex.resp.body))
		return false
	}
	return true
}

func trunc(s string, n int) string {
	if len(s) > n {
		return s[:n]
	}
	return s
}

func uniq(in []string) []string {
	seen := map[string]bool{}
	var out []string
	for _, s := range in {
		if s != "none" && !seen[s] {
			seen[s] = true
			out = append(out, s)
		}
	}
	if len(out) == 0 {
		return []string{"none"}
	}
	// stable order
	for i := 1; i < len(out); i++ {
		for j := i; j > 0 && out[j] < out[j-1]; j-- {
			out[j], out[j-1] = out[j-1], out[j]
		}
	}
	return out
}
