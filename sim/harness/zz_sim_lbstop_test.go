package main

// Scenario "lbstop": graceful shutdown of the balancer (micro part of C19).
// Active probing with fast / slow / refusing probe endpoints; Stop() at a
// drawn virtual instant and a drawn interleaving of the ticker goroutine's
// probe registration against Stop's cancel/wait; repeated and concurrent Stop
// calls. Oracle: every Stop returns within one probe timeout of virtual time,
// no probe is observed at any backend after the first Stop has returned,
// and the WaitGroup is not misused (Add racing a Wait at zero).

import (
	"fmt"
	"time"

	"github.com/0xReLogic/Helios/internal/config"
	"vsim/simrt"
)

func init() {
	register(&Scenario{Name: "lbstop", Props: []string{"C19"}, Kind: "micro", Run: runLBStop})
}

func runLBStop(x *X) {
	c := x.C
	nb := 1 + c.Intn(3, "nbackends")
	interval := 2 + c.Intn(5, "interval")
	ptimeout := 1 + c.Intn(interval-1, "ptimeout")
	I := time.Duration(interval) * time.Second
	PT := time.Duration(ptimeout) * time.Second
	strategy := strategies[c.Intn(5, "strategy")]
	s := x.StartMicro()
	net := newStubNet(x)
	var bcs []config.BackendConfig
	for i := 0; i < nb; i++ {
		b := net.add(fmt.Sprintf("b%d", i), x.BackendHost(8, i+1), "")
		b.probeMode = []string{"ok", "slow", "conn", "status"}[c.Intn(4, "probemode")]
		if b.probeMode == "slow" {
			b.probeSlow = []time.Duration{PT / 2, PT + time.Second, 5 * PT, PT / 4}[c.Intn(4, "slow")]
			x.Fault("probe-slow")
		}
		bcs = append(bcs, config.BackendConfig{Name: b.name, Address: "http://" + b.host, Weight: 1})
	}
	simrt.WGMisuse = func(site string) {
		x.Violate("C19", "C19/waitgroup-add-during-wait{"+site+"}", "WaitGroup.Add(+1) at %s lands after the last probe finished but before Stop's Wait has resumed: the real sync.WaitGroup panics here (\"WaitGroup is reused before previous Wait has returned\"), i.e. shutdown crashes", site)
		x.Violate("C12", "C12/waitgroup-misuse{"+site+"}", "WaitGroup.Add at %s races with Wait at zero", site)
	}
	defer func() { simrt.WGMisuse = nil }()
	onErr := func(e *simrt.SchedError) {
		x.Violate("C19", "C19/stop-blocked{"+e.Kind+"}", "%s", e.Error())
		x.Violate("C12", "C12/"+e.Kind+"{lbstop}", "%s", e.Error())
		x.Blocked(e, "lbstop")
	}
	var h *lbHarness
	x.Do("setup", func() {
		h, _ = newLBHarness(x, net, lbOpts{strategy: strategy, backends: bcs, passive: true, threshold: 2, window: 5, active: true, interval: interval, timeout: ptimeout, wsPool: c.Intn(2, "wspool") == 1})
	}, onErr)
	if h == nil {
		s.Teardown()
		return
	}
	// when to stop: before the first probe finishes, mid-probe, between ticks, exactly at a tick
	var at time.Duration
	switch c.Intn(7, "stop-at") {
	case 0:
		at = 0
	case 1:
		at = PT / 2
	case 2:
		at = I
	case 3:
		at = I + PT/2
	case 4:
		at = I - time.Millisecond
	case 5:
		at = 2*I + time.Millisecond
	case 6:
		at = time.Duration(c.Intn(3*interval*1000, "ms")) * time.Millisecond
	}
	nStops := 1 + c.Intn(3, "nstops")
	concurrentStops := c.Intn(2, "concurrent") == 1
	traffic := c.Intn(2, "traffic") == 1
	x.Sample["config"] = fmt.Sprintf("strategy=%s backends=%d interval=%v probe_timeout=%v stop_at=%v stops=%d concurrent=%v traffic=%v", strategy, nb, I, PT, at, nStops, concurrentStops, traffic)
	x.Logf("lbstop %s", x.Sample["config"])
	if at > 0 {
		x.Advance(at, onErr)
	}
	type stopRec struct {
		inv, ret     uint64
		invAt, retAt time.Duration
	}
	var stops []stopRec
	doStop := func() {
		r := stopRec{inv: x.Seq(), invAt: x.Now()}
		x.Logf("stop inv %d t=%v", r.inv, r.invAt)
		h.lb.Stop()
		r.ret, r.retAt = x.Seq(), x.Now()
		x.Logf("stop ret %d t=%v", r.ret, r.retAt)
		x.mu.Lock()
		stops = append(stops, r)
		x.mu.Unlock()
	}
	// an operator adds a backend (admin API) a moment before the stop; its health endpoint stalls
	if c.Intn(3, "add-just-before-stop") == 0 {
		nb2 := net.add("late", x.BackendHost(8, 9), "")
		nb2.probeMode, nb2.probeSlow = "slow", 5*PT
		x.Do("add", func() {
			if err := h.lb.AddBackend(config.BackendConfig{Name: "late", Address: "http://" + nb2.host, Weight: 1}); err != nil {
				panic(err)
			}
		}, onErr)
		if d := time.Duration(c.Intn(300, "add-to-stop-ms")) * time.Millisecond; d > 0 {
			x.Advance(d, onErr)
		}
		x.Fault("probe-slow")
		x.Probe("backend-added-just-before-stop")
	}
	if traffic {
		for j := 0; j < 2; j++ {
			s.Spawn("traffic", func() { h.do(reqSpec{client: "192.0.2.1"}) })
		}
	}
	if concurrentStops {
		for j := 0; j < nStops; j++ {
			s.Spawn("stop", doStop)
		}
		x.RunTasks(onErr)
	} else {
		for j := 0; j < nStops && !x.dead; j++ {
			x.Do("stop", doStop, onErr)
			if j+1 < nStops && c.Intn(2, "gap") == 1 {
				x.Advance(time.Second, onErr)
			}
		}
		x.RunTasks(onErr)
	}
	if x.dead {
		s.Teardown()
		return
	}
	// let several probe intervals pass: nothing may be probed any more
	x.Advance(3*I+time.Second, onErr)
	if x.dead {
		s.Teardown()
		return
	}
	first := stops[0]
	for _, st := range stops {
		if st.ret < first.ret {
			first = st
		}
		// cancelling the balancer's context aborts in-flight probes: Stop has nothing to wait for
		if st.retAt-st.invAt > 100*time.Millisecond {
			x.Violate("C19", "C19/stop-waits-for-probes", "Stop took %v of virtual time with probes in flight (probe timeout %v): shutdown may not wait for a stalled health endpoint", st.retAt-st.invAt, PT)
		}
	}
	for _, e := range net.snapshot() {
		if e.kind == "probe" && e.seq > first.ret {
			x.Violate("C19", "C19/probe-after-stop", "backend %s was probed at t=%v (step %d) after Stop had returned at t=%v (step %d)", e.backend, e.at, e.seq, first.retAt, first.ret)
			break
		}
	}
	if len(stops) > 1 {
		x.Probe("repeated-stop")
	}
	x.State(fmt.Sprint(at/time.Millisecond/500), fmt.Sprint(nStops, concurrentStops))
	if left := s.Teardown(); left > 0 {
		x.Probe("teardown-left")
	}
}
