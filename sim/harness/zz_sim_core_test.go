//go:debug asynctimerchan=0
//go:debug randseednop=0

package main

// Core of the simulation harness: run context, scenario registry, bubble
// runner, minimiser, worker entry point (TestSim). This file is overlaid into
// cmd/helios at check time; it never exists in the repository.

import (
	"encoding/binary"
	"encoding/json"
	"fmt"
	"hash/fnv"
	"io"
	"log"
	mrand "math/rand"
	"os"
	"regexp"
	"runtime"
	"sort"
	"strings"
	"sync"
	"sync/atomic"
	"testing"
	"testing/synctest"
	"time"

	"github.com/0xReLogic/Helios/internal/config"
	"github.com/0xReLogic/Helios/internal/logging"
	"vsim/choice"
	"vsim/simrt"
)

// ---------------------------------------------------------------------------
// run context

// Violation is one oracle failure.
type Violation struct {
	Property    string `json:"property"`
	Fingerprint string `json:"fingerprint"`
	Message     string `json:"message"`
}

// X is the context of one simulated run.
type X struct {
	C        *choice.Source
	Scenario string
	Prop     string // property being checked ("" = all oracles of the scenario)
	Tier     string
	Seed     uint64
	Index    uint64

	KeepLog bool
	Log     []string
	logHash uint64
	nEvents int

	Violations []Violation
	Faults     map[string]int
	Probes     map[string]int
	States     map[uint64]struct{}
	Sample     map[string]any
	Nontrivial bool

	// PostCheck runs after the bubble has ended (real time, real goroutines): used
	// for checkers that must not run on the fake clock (porcupine).
	PostCheck func()
	post      bool // PostCheck is running (the bubble is over; teardown's mute no longer applies)

	hostLayout int // 0 = not drawn yet; see BackendHost

	S        *simrt.Sched
	dead     bool // scheduler reported deadlock / no-progress; run is over
	simStart time.Time
	SimTime  time.Duration
	mu       sync.Mutex
	seq      uint64
}

func newX(sc string, src *choice.Source) *X {
	return &X{C: src, Scenario: sc, Faults: map[string]int{}, Probes: map[string]int{}, States: map[uint64]struct{}{}, Sample: map[string]any{}, logHash: 14695981039346656037}
}

// Logf appends an event to the run's log (hashed always, kept when KeepLog).
func (x *X) Logf(format string, a ...any) {
	if simrt.Dying() && !x.post {
		// teardown releases every parked task at once; what their deferred code logs
		// is unordered and not part of the run
		return
	}
	s := fmt.Sprintf(format, a...)
	x.mu.Lock()
	h := x.logHash
	for i := 0; i < len(s); i++ {
		h = (h ^ uint64(s[i])) * 1099511628211
	}
	h = (h ^ 0xff) * 1099511628211
	x.logHash = h
	x.nEvents++
	if x.KeepLog {
		x.Log = append(x.Log, s)
	}
	x.mu.Unlock()
}

// Seq returns the next global event sequence number.
func (x *X) Seq() uint64 {
	x.mu.Lock()
	x.seq++
	s := x.seq
	x.mu.Unlock()
	return s
}

// Want reports whether oracles of property p are active in this run.
func (x *X) Want(p string) bool { return x.Prop == "" || x.Prop == p }

// Violate records an oracle failure.
func (x *X) Violate(prop, fingerprint, format string, a ...any) {
	if !x.Want(prop) || (simrt.Dying() && !x.post) {
		return
	}
	msg := fmt.Sprintf(format, a...)
	x.mu.Lock()
	for _, v := range x.Violations {
		if v.Property == prop && v.Fingerprint == fingerprint {
			x.mu.Unlock()
			return
		}
	}
	x.Violations = append(x.Violations, Violation{prop, fingerprint, msg})
	x.mu.Unlock()
	x.Logf("VIOLATION %s %s: %s", prop, fingerprint, msg)
}

// BackendHost names the i-th backend address of a run. How a pool is laid out is drawn per
// run: one machine per backend, several instances on one machine (same host, other port),
// or service names -- backends are told apart by their whole address, nothing less.
func (x *X) BackendHost(subnet, i int) string {
	if x.hostLayout == 0 {
		x.hostLayout = 1 + x.C.Intn(3, "backend-address-layout")
	}
	switch x.hostLayout {
	case 2:
		return fmt.Sprintf("10.%d.0.1:%d", subnet, 8000+i)
	case 3:
		return fmt.Sprintf("app.svc%d.internal:%d", subnet, 9000+i)
	}
	return fmt.Sprintf("10.%d.0.%d:80", subnet, i)
}

// Blocked reports a scheduler error (deadlock, no progress: operations of the workload that
// never return) for the property that is being checked, whatever else the scenario attributes it
// to: a check must not pass because the system under test stopped half-way through its workload
// (the oracles after that point see nothing).
func (x *X) Blocked(e *simrt.SchedError, scenario string) {
	if x.Prop == "" {
		return
	}
	x.mu.Lock()
	for _, v := range x.Violations {
		if v.Property == x.Prop && strings.Contains(v.Fingerprint, e.Kind) {
			x.mu.Unlock()
			return
		}
	}
	x.mu.Unlock()
	x.Violate(x.Prop, x.Prop+"/workload-blocked{"+e.Kind+","+scenario+"}", "operations of the %s workload never returned: %s", scenario, e.Error())
}

func (x *X) Fault(kind string) { x.mu.Lock(); x.Faults[kind]++; x.Nontrivial = true; x.mu.Unlock() }
func (x *X) Probe(name string) { x.mu.Lock(); x.Probes[name]++; x.mu.Unlock() }
func (x *X) State(parts ...string) {
	h := simrt.HashString(parts...)
	x.mu.Lock()
	x.States[h] = struct{}{}
	x.mu.Unlock()
}

// Now is virtual time since the start of the run.
func (x *X) Now() time.Duration { return time.Since(x.simStart) }

// ---------------------------------------------------------------------------
// micro-sim helpers

// StartMicro installs the cooperative scheduler with a drawn policy.
func (x *X) StartMicro() *simrt.Sched {
	sc := x.C.Sub("sched")
	s := simrt.NewSched(func(n int, label string) int { return sc.Intn(n, label) })
	switch sc.Intn(3, "policy") {
	case 0:
		s.Policy = simrt.PolicySticky
		s.PreemptDenom = []int{3, 6, 12, 25}[sc.Intn(4, "preempt-denom")]
	case 1:
		s.Policy = simrt.PolicyUniform
	case 2:
		d := sc.Intn(3, "pct-d")
		cps := make([]int, d)
		for i := range cps {
			cps[i] = sc.Intn(120, "pct-cp")
		}
		s.SetPCT(cps)
	}
	s.KeepTrace = x.KeepLog
	x.S = s
	return s
}

const microIdleBudget = 6 * time.Hour // virtual

// EnableStalls turns on the stall fault of the micro scheduler for this run: at each
// scheduling step, with probability 1/denom and at most budget times, one enabled task is
// descheduled for one of the given spans of virtual time (a goroutine that lost the CPU in
// the middle of an operation while timers fire and the others go on).
func (x *X) EnableStalls(denom, budget int, durs ...time.Duration) {
	x.S.StallDenom, x.S.StallBudget, x.S.StallDurs = denom, budget, durs
	x.S.OnStall = func(task, site string, d time.Duration) {
		x.Fault("task-stall")
		x.Logf("stall %s at %s for %v (t=%v)", task, site, d, x.Now())
	}
}

// WaitFree (free mode, race tier) waits until the workload's goroutines have finished. Virtual time
// only moves when every goroutine of the bubble is durably blocked, so each ten-minute look finds
// the others asleep or waiting. Goroutines that wait on instrumented (Helios) locks at two looks in
// a row with a wait-for cycle among them, or at six looks in a row without one (the holder is gone
// or blocked itself), are blocked for good: a deadlock in Helios code and a violation of prop,
// reported with the cycle among the lock sites if there is one. Goroutines that merely sleep
// (workloads sleep across cleanup ticks and bucket expiries) are waited for.
func (x *X) WaitFree(wg *sync.WaitGroup, prop, what string) bool {
	finished := make(chan struct{})
	go func() { wg.Wait(); close(finished) }()
	persist := 0
	for looks := 0; looks < 6*24*30; looks++ {
		select {
		case <-finished:
			return true
		case <-time.After(10 * time.Minute): // virtual
		}
		ws := simrt.FreeLockWaiters()
		if len(ws) == 0 {
			persist = 0
			continue
		}
		persist++
		cyc := simrt.FreeLockCycle()
		if (cyc != nil && persist >= 2) || persist >= 6 {
			key := ws
			if cyc != nil {
				key = cyc
			}
			x.Violate(prop, prop+"/deadlock{"+strings.Join(key, "+")+"}", "goroutines %s are blocked for good on Helios locks at %v", what, ws)
			return false
		}
	}
	x.Probe("workload-did-not-finish")
	return false
}

// schedErr is called when the scheduler reports deadlock / no-progress.
func (x *X) schedErr(e *simrt.SchedError, onErr func(*simrt.SchedError)) {
	x.dead = true
	x.Probe("sched-error-" + e.Kind)
	x.Logf("SCHED-ERROR %s: %s", e.Kind, e.Detail)
	if onErr != nil {
		onErr(e)
	}
}

// checkPanics turns panics that ended a task into violations when they come out of Helios
// code (crash of a request / admin / shutdown goroutine) and into harness errors otherwise.
func (x *X) checkPanics() {
	if x.S == nil {
		return
	}
	for _, p := range x.S.TakePanics() {
		site := heliosFrame(p.Stack)
		if site == "" {
			panic(fmt.Sprintf("panic in harness task %s: %s\n%s", p.Task, p.Value, p.Stack))
		}
		prop := x.Prop
		if prop == "" {
			prop = "C12"
		}
		v := p.Value
		if len(v) > 80 {
			v = v[:80]
		}
		x.Violate(prop, prop+"/panic{"+site+"}", "a goroutine running Helios code panicked: %s (innermost Helios frame %s, task %s)", v, site, p.Task)
	}
}

// checkFreePanics does the same for system-sim runs, where Helios' own goroutines run
// freely: a panic there would have ended the real process.
func (x *X) checkFreePanics() {
	for _, p := range simrt.TakeFreePanics() {
		site := heliosFrame(p.Stack)
		if site == "" {
			site = p.Task
		}
		prop := x.Prop
		if prop == "" {
			prop = "C12"
		}
		v := p.Value
		if len(v) > 80 {
			v = v[:80]
		}
		fp := prop + "/panic{" + site + "}"
		dup := false
		x.mu.Lock()
		for _, o := range x.Violations {
			dup = dup || (o.Property == prop && o.Fingerprint == fp)
		}
		if !dup && x.Want(prop) {
			x.Violations = append(x.Violations, Violation{prop, fp, fmt.Sprintf("a goroutine started by Helios panicked, which ends the process: %s (innermost Helios frame %s, %s)", v, site, p.Task)})
		}
		x.mu.Unlock()
	}
}

var heliosFrameRe = regexp.MustCompile(`(?m)^\s+\S*?/((?:internal|cmd/helios)/[^\s:]+\.go):(\d+)`)

// heliosFrame returns the innermost non-test Helios frame of a stack trace ("" if none).
func heliosFrame(stack string) string {
	for _, m := range heliosFrameRe.FindAllStringSubmatch(stack, -1) {
		if strings.HasSuffix(m[1], "_test.go") {
			continue
		}
		return m[1] + ":" + m[2]
	}
	return ""
}

// RunTasks runs the scheduler until every workload task has finished.
func (x *X) RunTasks(onErr func(*simrt.SchedError)) bool {
	if x.dead {
		return false
	}
	if e := x.S.Run(x.S.AllWorkloadDone, time.Time{}, false, microIdleBudget); e != nil {
		x.schedErr(e, onErr)
		return false
	}
	x.checkPanics()
	return true
}

// WaitFor runs the scheduler until the given tasks have finished (other tasks interleave
// and may still be running afterwards).
func (x *X) WaitFor(onErr func(*simrt.SchedError), ts ...*simrt.Task) bool {
	if x.dead {
		return false
	}
	done := func() bool {
		for _, t := range ts {
			if !t.Done() {
				return false
			}
		}
		return true
	}
	if e := x.S.Run(done, time.Time{}, false, microIdleBudget); e != nil {
		x.schedErr(e, onErr)
		return false
	}
	x.checkPanics()
	return true
}

// Do runs fn as a single workload task to completion (other tasks interleave).
func (x *X) Do(name string, fn func(), onErr func(*simrt.SchedError)) bool {
	if x.dead {
		return false
	}
	t := x.S.Spawn(name, fn)
	if e := x.S.Run(t.Done, time.Time{}, false, microIdleBudget); e != nil {
		x.schedErr(e, onErr)
		return false
	}
	x.checkPanics()
	return true
}

// Advance lets virtual time pass by d while scheduling whatever becomes enabled.
func (x *X) Advance(d time.Duration, onErr func(*simrt.SchedError)) bool {
	if x.dead {
		return false
	}
	if e := x.S.Run(nil, time.Now().Add(d), false, 0); e != nil {
		x.schedErr(e, onErr)
		return false
	}
	x.checkPanics()
	return true
}

// Settle runs the scheduler until nothing is enabled (no time passes).
func (x *X) Settle(onErr func(*simrt.SchedError)) bool {
	if x.dead {
		return false
	}
	if e := x.S.Run(nil, time.Time{}, true, 0); e != nil {
		x.schedErr(e, onErr)
		return false
	}
	return true
}

// waitQuiet blocks until every goroutine of the bubble is durably blocked.
func waitQuiet() { synctest.Wait() }

// TaskSleep is time.Sleep for harness task code: after waking, the task
// yields so that everything it does next is ordered by the scheduler.
func TaskSleep(d time.Duration) {
	if d > 0 {
		time.Sleep(d)
	}
	simrt.Yield("woke")
}

// ---------------------------------------------------------------------------
// scenarios

// Scenario is one family of simulated runs.
type Scenario struct {
	Name  string
	Props []string // properties whose oracles it carries
	Kind  string   // "micro" | "system"
	Run   func(x *X)
}

var scenarios = map[string]*Scenario{}

func register(s *Scenario) { scenarios[s.Name] = s }

// ---------------------------------------------------------------------------
// executing one run inside a bubble

type runOutcome struct {
	X          *X
	Abandoned  int
	HarnessErr string // panic in harness/root code: build/harness trouble, not a violation
	Stuck      bool   // the bubble made no progress in real time (simulator wedge): inconclusive, abandoned
}

// stuckLimit: real time one run may take. A bubble can wedge for good when a goroutine waits
// on a standard-library mutex (not a durable block for synctest) whose holder waits for the
// simulated network (DESIGN section 0): virtual time and the driver both stop. Such a run is
// abandoned (its goroutines stay parked, nothing of it is merged) and counted as stuck.
var stuckLimit = 60 * time.Second
var stuckDumped atomic.Bool

var silenceOnce sync.Once

func silenceLogs() {
	silenceOnce.Do(func() {
		if f, err := os.OpenFile("/dev/null", os.O_WRONLY, 0); err == nil {
			os.Stdout = f
		}
		logging.Init(config.LoggingConfig{Level: "fatal", Format: "json"})
		log.SetOutput(io.Discard) // net/http and httputil log through the standard logger
	})
}

var progress atomic.Uint64

func execRun(t *testing.T, sc *Scenario, x *X) (out runOutcome) {
	out.X = x
	progress.Add(1)
	// The bubble is started from a helper goroutine: when the race detector has reported
	// something during the run, the testing package fails the bubble's T and
	// synctest.Test then calls FailNow (runtime.Goexit) on its caller — which must not be
	// the worker's main test goroutine.
	finished := make(chan struct{})
	go func() {
		defer close(finished)
		defer func() {
			if r := recover(); r != nil {
				s := fmt.Sprint(r)
				if strings.Contains(s, "blocked goroutines remain") || strings.Contains(s, "deadlock: main bubble goroutine has exited") {
					out.Abandoned++
					if os.Getenv("VSIM_DEBUG") == "2" {
						buf := make([]byte, 1<<20)
						n := runtime.Stack(buf, true)
						fmt.Fprintf(os.Stderr, "---- abandoned bubble: goroutines\n%s\n", buf[:n])
					}
					return
				}
				if strings.Contains(s, "all goroutines in bubble are blocked") {
					// free mode: everything, the scenario's root included, is blocked for good. When
					// goroutines wait on instrumented (Helios) locks this is a deadlock in Helios code
					if ws := simrt.FreeLockWaiters(); len(ws) > 0 {
						key := ws
						if cyc := simrt.FreeLockCycle(); cyc != nil {
							key = cyc
						}
						x.Violate("C12", "C12/deadlock{"+strings.Join(key, "+")+"}", "every goroutine of the run is blocked for good; goroutines wait on Helios locks at %v", ws)
						return
					}
				}
				buf := make([]byte, 16<<10)
				n := runtime.Stack(buf, false)
				out.HarnessErr = s + "\n" + string(buf[:n])
			}
		}()
		synctest.Test(t, func(t *testing.T) {
			simrt.ResetRun()
			// net/http draws jitter for its shutdown polling from the global math/rand
			// source: pin it per run so that virtual timestamps replay exactly
			mrand.Seed(20260926)
			x.simStart = time.Now()
			defer func() {
				x.SimTime = time.Since(x.simStart)
				// a panic in scenario (root) code is harness trouble, not a violation; it must
				// be caught here because the bubble runs on its own goroutine
				if r := recover(); r != nil {
					buf := make([]byte, 16<<10)
					n := runtime.Stack(buf, false)
					out.HarnessErr = fmt.Sprint(r) + "\n" + string(buf[:n])
				}
			}()
			sc.Run(x)
			x.checkFreePanics()
		})
	}()
	// real time (this goroutine is outside the bubble), but only time this process was seen
	// running: the limit is consumed in one-second looks, and a look that took much longer than
	// a second (the machine was suspended, the clock jumped, the process was starved) counts as
	// one second. A run that merely sat through a pause of the whole VM is not stuck -- and
	// abandoning a run that is still alive lets its goroutines run into the next run's bubble.
	stuck := false
	for observed := time.Duration(0); !stuck; {
		look := time.Now()
		select {
		case <-finished:
		case <-time.After(time.Second):
			d := time.Since(look)
			if d > 2*time.Second {
				d = time.Second
			}
			if observed += d; observed >= stuckLimit {
				stuck = true
			}
			continue
		}
		break
	}
	if stuck {
		out.Stuck = true
		if stuckDumped.CompareAndSwap(false, true) {
			buf := make([]byte, 1<<20)
			n := runtime.Stack(buf, true)
			fmt.Fprintf(os.Stderr, "STUCK RUN (%s): no end after %v of real time; abandoned. First dump:\n%s\n", sc.Name, stuckLimit, buf[:n])
		}
		return out
	}
	if x.PostCheck != nil {
		pc := x.PostCheck
		x.PostCheck = nil
		x.post = true
		pc()
		x.post = false
	}
	return out
}

// ---------------------------------------------------------------------------
// job / result protocol between vrun and the worker

type ScenarioRange struct {
	Name string `json:"name"`
	From uint64 `json:"from"`
	To   uint64 `json:"to"`
}

type Job struct {
	Mode       string          `json:"mode"` // explore | replay | hashes
	Property   string          `json:"property"`
	Tier       string          `json:"tier"`
	Seed       uint64          `json:"seed"`
	Scenarios  []ScenarioRange `json:"scenarios"`
	Out        string          `json:"out"`
	HashOut    string          `json:"hash_out"`
	ReplayDir  string          `json:"replay_dir"`
	ReplayFile string          `json:"replay_file"`
	WallS      float64         `json:"wall_s"`
	MaxSamples int             `json:"max_samples"`
	Worker     int             `json:"worker"`
	Repeat     int             `json:"repeat"` // replay: repeat the run up to this many times (race tier: the schedule is not seed-decided)
}

type FoundViolation struct {
	Violation
	Scenario   string `json:"scenario"`
	Index      uint64 `json:"index"`
	RunSeed    uint64 `json:"run_seed"`
	ReplayPath string `json:"replay_path"`
	Choices    int    `json:"choices"`
	OrigLen    int    `json:"orig_choices"`
	MinRuns    int    `json:"minimise_runs"`
	Count      int    `json:"count"` // runs of this worker that showed the fingerprint
	Trace      choice.Trace `json:"trace,omitempty"` // un-minimised choices of the first occurrence
}

type Result struct {
	Worker        int               `json:"worker"`
	Runs          uint64            `json:"runs"`
	RunsByScen    map[string]uint64 `json:"runs_by_scenario"`
	Completed     bool              `json:"completed"`
	SimTimeS      float64           `json:"sim_time_s"`
	WallS         float64           `json:"wall_s"`
	Faults        map[string]int    `json:"faults"`
	Probes        map[string]int    `json:"probes"`
	Decisions     uint64            `json:"decisions"`
	Steps         uint64            `json:"steps"`
	Draws         uint64            `json:"draws"`
	Events        uint64            `json:"events"`
	NontrivialRun uint64            `json:"nontrivial_runs"`
	Sites         map[string]int    `json:"sites"`
	Abandoned     int               `json:"abandoned"`
	Stuck         int               `json:"stuck"`
	StuckRuns     []string          `json:"stuck_runs,omitempty"`
	Adopted       int               `json:"adopted"`
	HarnessErrs   []string          `json:"harness_errors"`
	Violations    []*FoundViolation `json:"violations"`
	Samples       []map[string]any  `json:"samples"`
	LogHashes     map[string]string `json:"log_hashes,omitempty"`
}

// ReplayFile is the on-disk replay format.
type ReplayFile struct {
	Property    string   `json:"property"`
	Fingerprint string   `json:"fingerprint"`
	Message     string   `json:"message"`
	Scenario    string   `json:"scenario"`
	Tier        string   `json:"tier"`
	BaseSeed    uint64   `json:"base_seed"`
	Index       uint64   `json:"index"`
	RunSeed     uint64   `json:"run_seed"`
	Choices     choice.Trace        `json:"choices"`
	Labels      map[string][]string `json:"labels,omitempty"`
	Events      []string `json:"events"`
	Schedule    []string `json:"schedule,omitempty"`
	OrigChoices int      `json:"orig_choices"`
	Sample      any      `json:"sample,omitempty"`
	// WarmupRuns > 0: the violation depends on state that Helios keeps at process level
	// (package variables such as a sync.Pool) and that earlier simulated runs of the same
	// process left behind: the replay first executes the WarmupRuns runs that precede Index
	// (same scenario, seeds derived from BaseSeed as in exploration), then the trace.
	WarmupRuns uint64 `json:"warmup_runs,omitempty"`
}

func hasFingerprint(x *X, prop, fp string) bool {
	for _, v := range x.Violations {
		if v.Property == prop && v.Fingerprint == fp {
			return true
		}
	}
	return false
}

// minimise shrinks a failing choice trace while the same (property,
// fingerprint) violation persists. Streams are shrunk one at a time. Returns
// the shrunk trace and the number of executions used.
func minimise(t *testing.T, sc *Scenario, job *Job, trace choice.Trace, prop, fp string, maxRuns int, maxWall time.Duration) (choice.Trace, int) {
	start := time.Now()
	runs := 0
	budget := func() bool { return runs < maxRuns && time.Since(start) < maxWall }
	try := func(cand choice.Trace) (choice.Trace, bool) {
		if !budget() {
			return nil, false
		}
		runs++
		x := newX(sc.Name, choice.Replay(cand))
		x.Prop, x.Tier = job.Property, job.Tier
		out := execRun(t, sc, x)
		if out.HarnessErr != "" || out.Stuck {
			return nil, false
		}
		if hasFingerprint(x, prop, fp) {
			// Selection bias: in the system simulation the order of goroutines inside one
			// quiescence step is the Go scheduler's, and a shrinker that tries thousands of
			// candidates would drift towards traces that violate only once in a while. A
			// candidate is therefore accepted only if its recorded trace violates again, twice.
			eff := x.C.Recorded()
			for i := 0; i < 2; i++ {
				runs++
				y := newX(sc.Name, choice.Replay(eff))
				y.Prop, y.Tier = job.Property, job.Tier
				if o := execRun(t, sc, y); o.HarnessErr != "" || o.Stuck || !hasFingerprint(y, prop, fp) {
					return nil, false
				}
			}
			return eff, true
		}
		return nil, false
	}
	cur := trace.Clone()
	if eff, ok := try(cur); ok {
		cur = eff
	} else {
		return trace, runs
	}
	with := func(stream string, v []uint32) choice.Trace {
		c := cur.Clone()
		c[stream] = v
		return c
	}
	improved := true
	for improved && budget() {
		improved = false
		streams := make([]string, 0, len(cur))
		for k := range cur {
			streams = append(streams, k)
		}
		sort.Strings(streams)
		for _, st := range streams {
			get := func() []uint32 { return cur[st] }
			accept := func(eff choice.Trace, shorterOnly bool, before int) bool {
				if shorterOnly && eff.Len() >= before {
					return false
				}
				cur = eff
				improved = true
				return true
			}
			// 1. truncate (binary search on prefix length)
			lo, hi := 0, len(get())
			for lo < hi && budget() {
				mid := (lo + hi) / 2
				if eff, ok := try(with(st, get()[:mid])); ok {
					before := cur.Len()
					cur = eff
					if eff.Len() < before {
						improved = true
					}
					hi = mid
					if len(get()) < hi {
						hi = len(get())
					}
				} else {
					lo = mid + 1
				}
			}
			// 2. delete chunks (halving sizes, then every small size: one generated
			//    operation is typically 2-6 consecutive draws)
			var sizes []int
			for size := len(get()) / 2; size > 8; size /= 2 {
				sizes = append(sizes, size)
			}
			sizes = append(sizes, 8, 7, 6, 5, 4, 3, 2, 1)
			for _, size := range sizes {
				for i := 0; i+size <= len(get()) && budget(); {
					v := get()
					cand := append(append([]uint32{}, v[:i]...), v[i+size:]...)
					if eff, ok := try(with(st, cand)); ok && accept(eff, true, cur.Len()) {
						continue
					}
					i++
				}
			}
			// 2b. lower a count and delete the draws of one generated item after it
			for i := 0; i < len(get()) && budget(); i++ {
				if get()[i] == 0 {
					continue
				}
			sizeLoop:
				for _, size := range []int{2, 3, 4, 5, 6} {
					for j := i + 1; j+size <= len(get()) && j < i+40 && budget(); j++ {
						v := get()
						cand := append([]uint32{}, v[:j]...)
						cand = append(cand, v[j+size:]...)
						cand[i]--
						if eff, ok := try(with(st, cand)); ok && accept(eff, true, cur.Len()) {
							break sizeLoop
						}
					}
				}
			}
			// 3. zero, halve, decrement single entries
			for i := 0; i < len(get()) && budget(); i++ {
				v := get()
				if v[i] == 0 {
					continue
				}
				for _, nv := range []uint32{0, v[i] / 2, v[i] - 1} {
					if nv >= v[i] {
						continue
					}
					cand := append([]uint32{}, v...)
					cand[i] = nv
					if eff, ok := try(with(st, cand)); ok {
						cur = eff
						improved = true
						break
					}
				}
			}
		}
	}
	return cur, runs
}

func writeReplay(t *testing.T, sc *Scenario, job *Job, fv *FoundViolation, trace choice.Trace, orig int) error {
	// final run with logs kept
	src := choice.Replay(trace)
	src.KeepLabels = true
	x := newX(sc.Name, src)
	x.Prop, x.Tier, x.KeepLog = job.Property, job.Tier, true
	execRun(t, sc, x)
	msg := fv.Message
	for _, v := range x.Violations {
		if v.Property == fv.Property && v.Fingerprint == fv.Fingerprint {
			msg = v.Message
		}
	}
	rf := ReplayFile{
		Property: fv.Property, Fingerprint: fv.Fingerprint, Message: msg, Scenario: sc.Name, Tier: job.Tier,
		BaseSeed: job.Seed, Index: fv.Index, RunSeed: fv.RunSeed, Choices: trace, Labels: src.AllLabels(),
		Events: x.Log, OrigChoices: orig, Sample: x.Sample,
	}
	if x.S != nil {
		rf.Schedule = x.S.Trace
	}
	data, err := json.MarshalIndent(rf, "", " ")
	if err != nil {
		return err
	}
	if err := os.MkdirAll(job.ReplayDir, 0o755); err != nil {
		return err
	}
	return os.WriteFile(fv.ReplayPath, data, 0o644)
}

func sanitize(s string) string {
	var b strings.Builder
	for _, c := range s {
		if (c >= 'a' && c <= 'z') || (c >= 'A' && c <= 'Z') || (c >= '0' && c <= '9') || c == '-' || c == '_' {
			b.WriteRune(c)
		} else {
			b.WriteByte('_')
		}
	}
	r := b.String()
	if len(r) > 60 {
		h := fnv.New32a()
		h.Write([]byte(s))
		r = fmt.Sprintf("%s_%08x", r[:50], h.Sum32())
	}
	return r
}

// watchdog aborts the worker (exit 3: harness trouble, never a violation)
// when no run completes for a long wall-clock time.
func watchdog(limit time.Duration) {
	go func() {
		last := progress.Load()
		lastChange := time.Now()
		for {
			look := time.Now()
			time.Sleep(2 * time.Second)
			if time.Since(look) > 6*time.Second {
				// the machine was suspended or the clock jumped: that is not the run's doing
				lastChange = lastChange.Add(time.Since(look) - 2*time.Second)
			}
			cur := progress.Load()
			if cur != last {
				last, lastChange = cur, time.Now()
				continue
			}
			if time.Since(lastChange) > limit {
				buf := make([]byte, 1<<20)
				n := runtime.Stack(buf, true)
				fmt.Fprintf(os.Stderr, "WATCHDOG: no progress for %v in run #%d; goroutine dump:\n%s\n", limit, cur, buf[:n])
				os.Exit(3)
			}
		}
	}()
}

// TestSim is the worker entry point.
func TestSim(t *testing.T) {
	jobPath := os.Getenv("VSIM_JOB")
	if jobPath == "" {
		t.Skip("VSIM_JOB not set")
	}
	data, err := os.ReadFile(jobPath)
	if err != nil {
		t.Fatalf("read job: %v", err)
	}
	var job Job
	if err := json.Unmarshal(data, &job); err != nil {
		t.Fatalf("parse job: %v", err)
	}
	silenceLogs()
	watchdog(200 * time.Second)
	switch job.Mode {
	case "replay":
		doReplay(t, &job)
	case "minimise":
		doMinimise(t, &job)
	default:
		doExplore(t, &job)
	}
}

// doMinimise shrinks the trace in job.ReplayFile (a raw replay file: choices
// and identification only) and rewrites the file with the minimised trace,
// event log and schedule.
func doMinimise(t *testing.T, job *Job) {
	data, err := os.ReadFile(job.ReplayFile)
	if err != nil {
		t.Fatalf("read replay: %v", err)
	}
	var rf ReplayFile
	if err := json.Unmarshal(data, &rf); err != nil {
		t.Fatalf("parse replay: %v", err)
	}
	sc := scenarios[rf.Scenario]
	if sc == nil {
		t.Fatalf("unknown scenario %q", rf.Scenario)
	}
	job.Property, job.Tier, job.Seed = rf.Property, rf.Tier, rf.BaseSeed
	maxWall := 30 * time.Second
	if job.WallS > 0 {
		maxWall = time.Duration(job.WallS * float64(time.Second))
	}
	min, runs := minimise(t, sc, job, rf.Choices, rf.Property, rf.Fingerprint, 20000, maxWall)
	fv := &FoundViolation{Violation: Violation{rf.Property, rf.Fingerprint, rf.Message}, Scenario: rf.Scenario, Index: rf.Index, RunSeed: rf.RunSeed, ReplayPath: job.ReplayFile}
	job.ReplayDir = filepathDir(job.ReplayFile)
	if err := writeReplay(t, sc, job, fv, min, rf.Choices.Len()); err != nil {
		t.Fatalf("write replay: %v", err)
	}
	verify := 0
	for i := 0; i < 3; i++ {
		vx := newX(sc.Name, choice.Replay(min))
		vx.Prop, vx.Tier = job.Property, job.Tier
		execRun(t, sc, vx)
		if hasFingerprint(vx, rf.Property, rf.Fingerprint) {
			verify++
		}
	}
	b, _ := json.Marshal(map[string]any{"minimise_runs": runs, "choices": min.Len(), "orig_choices": rf.Choices.Len(), "final_verify_of_3": verify})
	if err := os.WriteFile(job.Out, b, 0o644); err != nil {
		t.Fatalf("write: %v", err)
	}
}

func filepathDir(p string) string {
	if i := strings.LastIndex(p, "/"); i >= 0 {
		return p[:i]
	}
	return "."
}

func doReplay(t *testing.T, job *Job) {
	data, err := os.ReadFile(job.ReplayFile)
	if err != nil {
		t.Fatalf("read replay: %v", err)
	}
	var rf ReplayFile
	if err := json.Unmarshal(data, &rf); err != nil {
		t.Fatalf("parse replay: %v", err)
	}
	sc := scenarios[rf.Scenario]
	if sc == nil {
		t.Fatalf("unknown scenario %q", rf.Scenario)
	}
	var x *X
	var out runOutcome
	tries := 0
	if rf.WarmupRuns > 0 {
		from := uint64(0)
		if rf.Index > rf.WarmupRuns {
			from = rf.Index - rf.WarmupRuns
		}
		for i := from; i < rf.Index; i++ {
			runSeed := choice.Mix(rf.BaseSeed, sc.Name, i)
			wx := newX(sc.Name, choice.New(runSeed))
			wx.Prop, wx.Tier, wx.Seed, wx.Index = rf.Property, rf.Tier, runSeed, i
			execRun(t, sc, wx)
		}
	}
	for {
		tries++
		x = newX(sc.Name, choice.Replay(rf.Choices))
		x.Prop, x.Tier, x.KeepLog = rf.Property, rf.Tier, true
		out = execRun(t, sc, x)
		if out.Stuck {
			x = newX(sc.Name, choice.Replay(rf.Choices)) // nothing of a stuck run is used
			break
		}
		if hasFingerprint(x, rf.Property, rf.Fingerprint) || tries >= job.Repeat {
			break
		}
	}
	res := map[string]any{
		"tries":       tries,
		"reproduced":  hasFingerprint(x, rf.Property, rf.Fingerprint),
		"violations":  x.Violations,
		"events":      x.Log,
		"harness_err": out.HarnessErr,
		"property":    rf.Property,
		"fingerprint": rf.Fingerprint,
		"log_hash":    fmt.Sprintf("%016x", x.logHash),
	}
	if x.S != nil {
		res["schedule"] = x.S.Trace
	}
	b, _ := json.MarshalIndent(res, "", " ")
	if err := os.WriteFile(job.Out, b, 0o644); err != nil {
		t.Fatalf("write: %v", err)
	}
}

func doExplore(t *testing.T, job *Job) {
	start := time.Now()
	res := &Result{Worker: job.Worker, RunsByScen: map[string]uint64{}, Faults: map[string]int{}, Probes: map[string]int{}, Sites: map[string]int{}}
	if job.Mode == "hashes" {
		res.LogHashes = map[string]string{}
	}
	var hashBuf []byte
	sitesPC := map[uintptr]int{}
	found := map[string]*FoundViolation{}
	deadline := time.Duration(job.WallS * float64(time.Second))
	completed := true
	if job.MaxSamples == 0 {
		job.MaxSamples = 3
	}
outer:
	for _, sr := range job.Scenarios {
		sc := scenarios[sr.Name]
		if sc == nil {
			t.Fatalf("unknown scenario %q", sr.Name)
		}
		for i := sr.From; i < sr.To; i++ {
			if deadline > 0 && time.Since(start) > deadline {
				completed = false
				break outer
			}
			runSeed := choice.Mix(job.Seed, sr.Name, i)
			x := newX(sc.Name, choice.New(runSeed))
			x.Prop, x.Tier, x.Seed, x.Index = job.Property, job.Tier, runSeed, i
			x.KeepLog = os.Getenv("VSIM_DEBUG") == "2"
			out := execRun(t, sc, x)
			if x.KeepLog {
				fmt.Fprintf(os.Stderr, "---- %s#%d\n%s\n", sr.Name, i, strings.Join(x.Log, "\n"))
				if x.S != nil {
					fmt.Fprintf(os.Stderr, "%s\n", strings.Join(x.S.Trace, "\n"))
				}
			}
			if out.Stuck {
				res.Stuck++
				if len(res.StuckRuns) < 5 {
					res.StuckRuns = append(res.StuckRuns, fmt.Sprintf("%s#%d", sr.Name, i))
				}
				continue
			}
			res.Runs++
			res.RunsByScen[sr.Name]++
			res.SimTimeS += x.SimTime.Seconds()
			if os.Getenv("VSIM_DEBUG") != "" {
				fmt.Fprintf(os.Stderr, "run %s#%d sim=%v draws=%d events=%d viol=%d\n", sr.Name, i, x.SimTime, x.C.Draws(), x.nEvents, len(x.Violations))
			}
			res.Abandoned += out.Abandoned
			res.Draws += uint64(x.C.Draws())
			res.Events += uint64(x.nEvents)
			for k, v := range x.Faults {
				res.Faults[k] += v
			}
			for k, v := range x.Probes {
				res.Probes[k] += v
			}
			var ih uint64
			if x.S != nil {
				res.Decisions += uint64(x.S.Decisions)
				res.Steps += uint64(x.S.Steps)
				res.Adopted += x.S.Adopted
				for pc, n := range x.S.Sites {
					sitesPC[pc] += n
				}
				ih = x.S.InterleavingHash()
				if x.S.Decisions > 0 {
					x.Nontrivial = true
				}
			}
			// interleaving/behaviour hash of the run: schedule hash xor event-log hash
			rh := ih*31 + x.logHash
			if x.Nontrivial {
				res.NontrivialRun++
				var b [9]byte
				b[0] = 1
				binary.LittleEndian.PutUint64(b[1:], rh)
				hashBuf = append(hashBuf, b[:]...)
			}
			for h := range x.States {
				var b [9]byte
				b[0] = 2
				binary.LittleEndian.PutUint64(b[1:], h)
				hashBuf = append(hashBuf, b[:]...)
			}
			if res.LogHashes != nil {
				res.LogHashes[fmt.Sprintf("%s:%d", sr.Name, i)] = fmt.Sprintf("%016x:%016x", x.logHash, ih)
			}
			if out.HarnessErr != "" {
				if len(res.HarnessErrs) < 5 {
					res.HarnessErrs = append(res.HarnessErrs, fmt.Sprintf("%s#%d seed=%d: %s", sr.Name, i, runSeed, out.HarnessErr))
				}
				continue
			}
			if len(res.Samples) < job.MaxSamples && len(x.Sample) > 0 && (x.Nontrivial || i == sr.From) {
				smp := map[string]any{"scenario": sr.Name, "index": i, "run_seed": runSeed, "sim_time_s": x.SimTime.Seconds(), "draws": x.C.Draws()}
				for k, v := range x.Sample {
					smp[k] = v
				}
				res.Samples = append(res.Samples, smp)
			}
			for _, v := range x.Violations {
				key := v.Property + "|" + v.Fingerprint
				if fv, ok := found[key]; ok {
					fv.Count++
					continue
				}
				fv := &FoundViolation{Violation: v, Scenario: sr.Name, Index: i, RunSeed: runSeed, Count: 1}
				found[key] = fv
				res.Violations = append(res.Violations, fv)
				// minimisation is a separate job (vrun picks one representative per fingerprint)
				fv.Trace = x.C.Recorded()
				fv.OrigLen = fv.Trace.Len()
			}
		}
	}
	res.Completed = completed
	res.WallS = time.Since(start).Seconds()
	for pc, n := range sitesPC {
		res.Sites[simrt.SiteOf(pc)] += n
	}
	sort.Slice(res.Violations, func(i, j int) bool { return res.Violations[i].Fingerprint < res.Violations[j].Fingerprint })
	if job.HashOut != "" {
		if err := os.WriteFile(job.HashOut, hashBuf, 0o644); err != nil {
			t.Fatalf("write hashes: %v", err)
		}
	}
	b, _ := json.Marshal(res)
	if err := os.WriteFile(job.Out, b, 0o644); err != nil {
		t.Fatalf("write result: %v", err)
	}
}
