package main

// Scenario "wsrace" (race-tier phase of C20, also part of C12's race tier): one
// to three Upgrade sessions through the real server, balancer and ReverseProxy
// over the simulated network in free-delivery mode, with BOTH directions of each
// session streaming at the same time (the driver-mediated system scenarios
// deliver one segment per step, so the two relay goroutines of a tunnel never
// run at the same moment there). Every side checks the bytes it receives
// against the deterministic sequence the other side sends: what one side puts
// into the tunnel is what the other side takes out, in order, nothing else.
// The schedule is the Go runtime's (binary built with -race); race reports
// touching Helios frames and panics go to C12, lost or altered bytes to C20.

import (
	"bufio"
	"fmt"
	"io"
	"net"
	"net/http"
	"strings"
	"sync"
	"time"

	"github.com/0xReLogic/Helios/internal/config"
	"vsim/simrt"
)

func init() {
	register(&Scenario{Name: "wsrace", Props: []string{"C20", "C12"}, Kind: "system", Run: runWSRace})
}

func wsByte(dir, i int) byte { return byte(i*7 + dir*13 + i>>8 + i>>16) }

// wsStream writes n bytes of direction dir in pieces of the given sizes (cycled).
func wsStream(conn net.Conn, dir, n int, sizes []int) error {
	buf := make([]byte, 0, 1<<16)
	for off, k := 0, 0; off < n; k++ {
		sz := sizes[k%len(sizes)]
		if off+sz > n {
			sz = n - off
		}
		buf = buf[:0]
		for j := 0; j < sz; j++ {
			buf = append(buf, wsByte(dir, off+j))
		}
		if _, err := conn.Write(buf); err != nil {
			return err
		}
		off += sz
	}
	return nil
}

// wsVerify reads n bytes and compares them with direction dir's sequence.
func wsVerify(r io.Reader, dir, n int) (int, string) {
	buf := make([]byte, 8192)
	got := 0
	for got < n {
		k, err := r.Read(buf)
		for j := 0; j < k; j++ {
			if buf[j] != wsByte(dir, got+j) {
				return got + j, fmt.Sprintf("byte at offset %d is %#02x, expected %#02x", got+j, buf[j], wsByte(dir, got+j))
			}
		}
		got += k
		if err != nil {
			if got < n {
				return got, fmt.Sprintf("stream ended after %d of %d bytes: %v", got, n, err)
			}
			break
		}
	}
	return got, ""
}

func runWSRace(x *X) {
	c := x.C
	x.Nontrivial = true
	o := sysOpts{strategy: strategies[c.Intn(5, "strategy")], nBackends: 1 + c.Intn(3, "nbackends"), free: true}
	o.timeouts = config.TimeoutConfig{Read: 60, Write: 60, Idle: 60, BackendRead: 60, BackendDial: 5, Handler: 120, Shutdown: 5}
	// half of the sessions outlive server.timeouts.handler (tunnels are exempt from it: whatever
	// bookkeeping the exemption needs runs next to a timer that fires in the middle of the session)
	outlive := c.Intn(2, "outlive-handler-timeout") == 1
	if outlive {
		o.timeouts.Handler = 1
	}
	if c.Intn(2, "wspool") == 1 {
		o.wsPool = true
	}
	if c.Intn(2, "plugins") == 1 {
		o.plugins = []config.PluginConfig{{Name: "logging"}, {Name: "gzip", Config: map[string]interface{}{"level": 6.0, "min_size": 0.0, "content_types": []interface{}{"text/"}}}}
	}
	o.logging.RequestID.Enabled = c.Intn(2, "ids") == 1
	env, err := newSysEnv(x, o)
	if err != nil {
		panic(err)
	}
	defer env.close()
	simrt.FreeYieldOnUnlock.Store(c.Intn(2, "yield-on-unlock") == 1)
	defer simrt.FreeYieldOnUnlock.Store(false)
	nSess := 1 + c.Intn(3, "sessions")
	up := 20000 + c.Intn(400000, "up-bytes")   // client -> backend
	down := 20000 + c.Intn(400000, "down-bytes") // backend -> client
	if x.Tier == "thorough" && c.Intn(4, "big") == 0 {
		up, down = 1<<20+c.Intn(1<<20, "up-big"), 1<<20+c.Intn(1<<20, "down-big")
	}
	palette := [][]int{{1, 7, 100, 4096, 33000}, {32768}, {512, 512, 9000}, {65536, 1}, {1000}}
	upSizes, downSizes := palette[c.Intn(len(palette), "up-sizes")], palette[c.Intn(len(palette), "down-sizes")]
	x.Sample["config"] = fmt.Sprintf("strategy=%s backends=%d wspool=%v plugins=%d sessions=%d up=%dB down=%dB (both directions at once; schedule: Go runtime, not seed-decided)", o.strategy, o.nBackends, o.wsPool, len(o.plugins), nSess, up, down)
	x.Logf("wsrace %s", x.Sample["config"])
	var mu sync.Mutex
	var problems []string
	note := func(format string, a ...any) {
		mu.Lock()
		problems = append(problems, fmt.Sprintf(format, a...))
		mu.Unlock()
	}
	var bwg sync.WaitGroup
	wsBackendHook = func(conn net.Conn, br *bufio.Reader, req *http.Request) {
		bwg.Add(1)
		defer bwg.Done()
		io.WriteString(conn, "HTTP/1.1 101 Switching Protocols\r\nUpgrade: websocket\r\nConnection: Upgrade\r\n\r\n")
		done := make(chan struct{})
		go func() {
			defer close(done)
			if err := wsStream(conn, 1, down, downSizes); err != nil {
				note("towards-client: the backend could not write its stream: %v", err)
			}
		}()
		if at, why := wsVerify(br, 0, up); why != "" {
			note("towards-backend: %s (after %d bytes)", why, at)
		}
		<-done
	}
	defer func() { wsBackendHook = nil }()
	var wg sync.WaitGroup
	for sidx := 0; sidx < nSess; sidx++ {
		sidx := sidx
		wg.Add(1)
		go func() {
			defer wg.Done()
			conn, err := env.net.Dial("wsclient", fmt.Sprintf("198.51.100.%d:45000", 90+sidx), heliosAddr, 0, nil)
			if err != nil {
				note("dial: %v", err)
				return
			}
			defer conn.Close()
			io.WriteString(conn, "GET /ws HTTP/1.1\r\nHost: helios.test\r\nUpgrade: websocket\r\nConnection: Upgrade\r\nSec-WebSocket-Key: dGhlIHNhbXBsZSBub25jZQ==\r\nSec-WebSocket-Version: 13\r\n\r\n")
			br := bufio.NewReader(conn)
			resp, err := http.ReadResponse(br, nil)
			if err != nil || resp.StatusCode != 101 {
				st := 0
				if resp != nil {
					st = resp.StatusCode
				}
				note("handshake: status %d err %v", st, err)
				return
			}
			if outlive {
				time.Sleep(1500 * time.Millisecond) // (virtual) past the handler timeout, then the traffic
			}
			done := make(chan struct{})
			go func() {
				defer close(done)
				if err := wsStream(conn, 0, up, upSizes); err != nil {
					note("towards-backend: the client could not write its stream: %v", err)
				}
			}()
			if at, why := wsVerify(br, 1, down); why != "" {
				note("towards-client: %s (after %d bytes)", why, at)
			}
			<-done
		}()
	}
	if !x.WaitFree(&wg, "C12", "relaying tunnels") {
		return
	}
	finished := make(chan struct{})
	go func() { bwg.Wait(); close(finished) }()
	select {
	case <-finished:
	case <-time.After(5 * time.Minute): // virtual
		note("towards-backend: a backend was still waiting for the client's bytes five minutes after the clients had finished")
	}
	x.Probe("race-run-completed")
	mu.Lock()
	for _, p := range problems {
		kind := "session"
		for _, k := range []string{"towards-client", "towards-backend", "handshake", "dial"} {
			if strings.HasPrefix(p, k) {
				kind = k
			}
		}
		x.Violate("C20", "C20/bytes-lost-or-altered{"+kind+",both-directions-at-once}", "%d session(s) streaming %d bytes up and %d bytes down at the same time: %s", nSess, up, down, p)
	}
	if len(problems) == 0 {
		x.Probe("tunnels-streamed-both-ways")
	}
	mu.Unlock()
	for _, rep := range readNewRaceReports() {
		sites := raceSites(rep)
		if len(sites) == 0 {
			x.Probe("race-report-without-helios-frame")
			continue
		}
		short := rep
		if len(short) > 1500 {
			short = short[:1500]
		}
		x.Violate("C12", "C12/race{"+strings.Join(uniqStrings(sites), "+")+"}", "data race between %v (tunnels streaming both ways):\n%s", sites, short)
		x.Violate("C20", "C20/race-in-tunnel-relay{"+strings.Join(uniqStrings(sites), "+")+"}", "data race between %v while tunnels stream in both directions at once (the bytes relayed rest on this code being race-free):\n%s", sites, short)
	}
}
