package main

// Scenario "cb": the real circuitbreaker.CircuitBreaker driven by 1-4
// concurrent client tasks under the seeded scheduler and the fake clock.
// Oracles: C07 (safety envelope over the transition-stamped history) and
// C08 (recovery script from whatever state the history reached; no blocking).

import (
	"sync"
	"errors"
	"fmt"
	"time"

	"github.com/0xReLogic/Helios/internal/circuitbreaker"
	"github.com/0xReLogic/Helios/internal/config"
	"vsim/simrt"
)

type cbEvent struct {
	seq  uint64
	at   time.Duration
	kind string // inv start end ret trans
	req  int
	out  string // end: ok|fail|panic ; ret: nil|open|toomany|err|panic ; trans: FROM>TO
}

type cbOp struct {
	kind    string // exec | sleep
	outcome string
	dur     time.Duration
}

var errBackend = errors.New("backend failed")

func init() {
	register(&Scenario{Name: "cb", Props: []string{"C07", "C08"}, Kind: "micro", Run: runCB})
}

func drawDur(x *X, unit time.Duration, label string) time.Duration {
	// 0 is the simplest: no time
	k := x.C.Intn(8, label)
	return []time.Duration{0, unit / 2, unit, unit + time.Millisecond, 2 * unit, unit - time.Millisecond, 3 * unit, unit / 4}[k]
}

func runCB(x *X) {
	c := x.C
	ft := 1 + c.Intn(3, "ft")
	st := 1 + c.Intn(3, "st")
	mr := 1 + c.Intn(3, "mr")
	interval := time.Duration(1+c.Intn(10, "interval")) * time.Second
	timeout := time.Duration(1+c.Intn(10, "timeout")) * time.Second
	nClients := 1 + c.Intn(4, "clients")
	maxOps := 6
	if x.Tier == "thorough" {
		maxOps = 10
	}
	scripts := make([][]cbOp, nClients)
	for i := range scripts {
		n := 1 + c.Intn(maxOps, "nops")
		for j := 0; j < n; j++ {
			switch c.Pick([]int{6, 3}, "op") {
			case 0:
				op := cbOp{kind: "exec"}
				op.outcome = []string{"ok", "fail", "fail", "panic"}[c.Intn(4, "outcome")]
				// how long the "backend call" takes: usually nothing, sometimes relative to timeout/interval
				switch c.Intn(4, "durkind") {
				case 1:
					op.dur = drawDur(x, timeout, "dur-t")
				case 2:
					op.dur = drawDur(x, interval, "dur-i")
				case 3:
					op.dur = time.Duration(1+c.Intn(50, "dur-ms")) * time.Millisecond
				}
				scripts[i] = append(scripts[i], op)
			case 1:
				op := cbOp{kind: "sleep"}
				if c.Intn(2, "sleepkind") == 0 {
					op.dur = drawDur(x, timeout, "sl-t")
				} else {
					op.dur = drawDur(x, interval, "sl-i")
				}
				scripts[i] = append(scripts[i], op)
			}
		}
	}
	x.Sample["config"] = fmt.Sprintf("ft=%d st=%d mr=%d interval=%v timeout=%v clients=%d", ft, st, mr, interval, timeout, nClients)
	desc := []string{}
	for i, s := range scripts {
		line := fmt.Sprintf("c%d:", i)
		for _, op := range s {
			if op.kind == "exec" {
				line += fmt.Sprintf(" exec(%s,%v)", op.outcome, op.dur)
			} else {
				line += fmt.Sprintf(" sleep(%v)", op.dur)
			}
		}
		desc = append(desc, line)
	}
	x.Sample["scripts"] = desc
	x.Logf("cb config ft=%d st=%d mr=%d interval=%v timeout=%v", ft, st, mr, interval, timeout)
	for _, d := range desc {
		x.Logf("script %s", d)
	}

	s := x.StartMicro()
	var evs []cbEvent
	rec := func(kind string, req int, out string) {
		e := cbEvent{seq: x.Seq(), at: x.Now(), kind: kind, req: req, out: out}
		x.mu.Lock()
		evs = append(evs, e)
		x.mu.Unlock()
		x.Logf("ev %d t=%v %s req=%d %s", e.seq, e.at, kind, req, out)
	}
	// the subscriber the balancer installs reads the breaker back (Counts, for its metrics);
	// half of the runs do the same, some yield first like a subscriber that logs
	subscriberReads := c.Intn(2, "subscriber-reads-breaker") == 1
	// a quarter of the runs have nobody subscribed to state changes (the breaker used as a library):
	// the transition-based history rules have nothing to look at then, the recovery claims still hold
	noSubscriber := c.Intn(4, "no-subscriber") == 0
	var cb *circuitbreaker.CircuitBreaker
	settings := circuitbreaker.Settings{
		Name: "sim", MaxRequests: uint32(mr), Interval: interval, Timeout: timeout,
		FailureThreshold: uint32(ft), SuccessThreshold: uint32(st),
		OnStateChange: func(name string, from, to circuitbreaker.State) {
			rec("trans", -1, from.String()+">"+to.String())
			if subscriberReads {
				simrt.Yield("subscriber")
				_, _, _ = cb.Counts()
				_ = cb.State()
			}
		},
	}
	if noSubscriber {
		settings.OnStateChange = nil
		x.Probe("breaker-without-subscriber")
	}
	cb = circuitbreaker.NewCircuitBreaker(settings)
	reqN := 0
	doExec := func(op cbOp) (ret string) {
		x.mu.Lock()
		reqN++
		id := reqN
		x.mu.Unlock()
		rec("inv", id, "")
		defer func() {
			if r := recover(); r != nil {
				ret = "panic"
			}
			rec("ret", id, ret)
		}()
		err := cb.Execute(func() error {
			rec("start", id, "")
			if op.dur > 0 {
				TaskSleep(op.dur)
			}
			rec("end", id, op.outcome)
			switch op.outcome {
			case "fail":
				return errBackend
			case "panic":
				panic("backend panic")
			}
			return nil
		})
		switch err {
		case nil:
			return "nil"
		case circuitbreaker.ErrCircuitBreakerOpen:
			return "open"
		case circuitbreaker.ErrTooManyRequests:
			return "toomany"
		case errBackend:
			return "err"
		}
		return "other:" + err.Error()
	}

	onErr := func(e *simrt.SchedError) {
		x.Violate("C08", "C08/blocked{"+e.Kind+"}", "breaker component: %s", e.Error())
		x.Violate("C12", "C12/"+e.Kind+"{cb}", "breaker component: %s", e.Error())
		x.Blocked(e, "cb")
	}
	for i := range scripts {
		script := scripts[i]
		s.Spawn(fmt.Sprintf("client%d", i), func() {
			for _, op := range script {
				if op.kind == "sleep" {
					TaskSleep(op.dur)
				} else {
					doExec(op)
				}
			}
		})
	}
	ok := x.RunTasks(onErr)
	// Biased phase: trip the breaker if the history left it closed, let the timeout
	// elapse, then fire 2-4 overlapping requests at the boundary and inside HALF-OPEN.
	if ok && c.Intn(2, "boundary-burst") == 1 {
		var stt circuitbreaker.State
		x.Do("state", func() { stt = cb.State() }, onErr)
		for k := 0; k < ft+1 && stt == circuitbreaker.StateClosed && !x.dead; k++ {
			x.Do("trip", func() { doExec(cbOp{kind: "exec", outcome: "fail"}) }, onErr)
			x.Do("state", func() { stt = cb.State() }, onErr)
		}
		// one or two rounds: trials of the first round may still be in flight (longer than the
		// timeout) when the breaker has re-opened and the second round starts a new episode
		rounds := 1 + c.Intn(2, "burst-rounds")
		for r := 0; r < rounds && !x.dead; r++ {
			x.Advance(timeout+time.Millisecond, onErr)
			nb := 2 + c.Intn(3, "burst-n")
			for k := 0; k < nb; k++ {
				durs := []time.Duration{0, 100 * time.Millisecond, 200 * time.Millisecond, timeout + 50*time.Millisecond, 2*timeout + 100*time.Millisecond}
				op := cbOp{kind: "exec", outcome: []string{"ok", "ok", "fail"}[c.Intn(3, "burst-outcome")], dur: durs[c.Intn(len(durs), "burst-dur")]}
				s.Spawn("burst", func() { doExec(op) })
			}
			// let the short ones finish; the long ones stay in flight across the next timeout
			x.Advance(300*time.Millisecond, onErr)
			x.Probe("boundary-burst")
		}
		if !x.dead {
			ok = x.RunTasks(onErr)
		}
	} else if ok && mr >= 2 && st < mr && c.Intn(2, "stale-trial-across-cycle") == 1 {
		// Biased phase: a trial of one half-open episode that is still in flight after the
		// breaker has closed, tripped again and entered its next episode. Its late success
		// belongs to no trial of the current episode.
		var stt circuitbreaker.State
		x.Do("state", func() { stt = cb.State() }, onErr)
		for k := 0; k < ft+1 && stt == circuitbreaker.StateClosed && !x.dead; k++ {
			x.Do("trip", func() { doExec(cbOp{kind: "exec", outcome: "fail"}) }, onErr)
			x.Do("state", func() { stt = cb.State() }, onErr)
		}
		x.Advance(timeout+time.Millisecond, onErr)
		s.Spawn("slow-trial", func() { doExec(cbOp{kind: "exec", outcome: "ok", dur: 2*timeout + 500*time.Millisecond}) })
		x.Advance(time.Millisecond, onErr)
		for k := 0; k < st && !x.dead; k++ {
			x.Do("trial", func() { doExec(cbOp{kind: "exec", outcome: "ok"}) }, onErr)
		}
		for k := 0; k < ft && !x.dead; k++ {
			x.Do("trip-again", func() { doExec(cbOp{kind: "exec", outcome: "fail"}) }, onErr)
		}
		x.Advance(timeout+time.Millisecond, onErr)
		if st >= 2 {
			for k := 0; k < st-1 && !x.dead; k++ {
				x.Do("trial-2", func() { doExec(cbOp{kind: "exec", outcome: "ok"}) }, onErr)
			}
		} else {
			s.Spawn("slow-trial-2", func() { doExec(cbOp{kind: "exec", outcome: "ok", dur: 2 * timeout}) })
		}
		x.Probe("stale-trial-across-cycle")
		if !x.dead {
			ok = x.RunTasks(onErr)
		}
	}
	if ok && !noSubscriber {
		checkCBHistory(x, evs, ft, st, mr, interval, timeout)
	}

	// ---- C08: recovery script -------------------------------------------------
	// The property quantifies over configurations that validation accepts: ask the real
	// validator about this (ft, st, mr, interval, timeout).
	accepted := true
	{
		probe := &config.Config{Backends: []config.BackendConfig{{Name: "b", Address: "http://10.0.0.1:80"}}}
		probe.Server.Port = 8080
		probe.CircuitBreaker = config.CircuitBreakerConfig{Enabled: true, MaxRequests: mr, FailureThreshold: ft, SuccessThreshold: st,
			IntervalSeconds: int(interval / time.Second), TimeoutSeconds: int(timeout / time.Second)}
		if err := probe.Validate(); err != nil {
			accepted = false
			x.Probe("config-rejected-by-validation")
		}
	}
	if ok && accepted && x.Want("C08") && c.Intn(4, "straggler-fails-while-open") == 0 {
		// A request that was already in flight when the breaker opened fails while it is open. From
		// the opening on, every request that is *sent* would succeed: `timeout` after the opening the
		// breaker has to let trials through, whatever came back from the past in between.
		x.Advance(timeout+time.Millisecond, onErr)
		for k := 0; k < st+mr+1 && !x.dead; k++ {
			x.Do("towards-closed", func() { doExec(cbOp{kind: "exec", outcome: "ok"}) }, onErr)
		}
		var stt circuitbreaker.State
		x.Do("state", func() { stt = cb.State() }, onErr)
		if stt == circuitbreaker.StateClosed && !x.dead {
			late := []time.Duration{timeout / 2, timeout - 10*time.Millisecond, timeout / 4}[c.Intn(3, "straggler-late")]
			s.Spawn("straggler", func() { doExec(cbOp{kind: "exec", outcome: "fail", dur: late}) })
			x.Settle(onErr)
			for k := 0; k < ft && !x.dead; k++ {
				x.Do("trip", func() { doExec(cbOp{kind: "exec", outcome: "fail"}) }, onErr)
			}
			x.Advance(timeout+time.Millisecond, onErr)
			x.RunTasks(onErr)
			bound := st + mr + 1
			closedAt := -1
			var rets []string
			for k := 0; k < bound+2 && !x.dead && closedAt < 0; k++ {
				var r string
				x.Do("recover", func() { r = doExec(cbOp{kind: "exec", outcome: "ok"}) }, onErr)
				rets = append(rets, r)
				x.Do("state", func() { stt = cb.State() }, onErr)
				if stt == circuitbreaker.StateClosed {
					closedAt = k + 1
				}
			}
			if !x.dead {
				if closedAt < 0 || closedAt > bound {
					x.Violate("C08", "C08/no-recovery{straggler-failed-while-open}", "breaker not CLOSED %v after it opened (timeout %v) plus %d successful requests; a request that was in flight at the opening failed %v into the open period (ft=%d st=%d mr=%d): returns=%v", timeout+time.Millisecond, timeout, bound, late, ft, st, mr, rets)
				} else {
					x.Probe("recovered-after-straggler-failed-while-open")
				}
			}
		}
	} else if ok && accepted && x.Want("C08") && timeout >= 4*time.Millisecond && c.Intn(4, "recovery-under-steady-callers") == 0 {
		// Callers that never back off: from a known-closed breaker, failure_threshold failures open
		// it, and from then on a request arrives every quarter of `timeout`, each of which would
		// succeed. Refusals while open are no news about the backend: one `timeout` after the opening
		// trials must be let through, and a bounded number of successes later the breaker is closed.
		x.Advance(timeout+time.Millisecond, onErr)
		for k := 0; k < st+mr+1 && !x.dead; k++ {
			x.Do("towards-closed", func() { doExec(cbOp{kind: "exec", outcome: "ok"}) }, onErr)
		}
		var stt circuitbreaker.State
		x.Do("state", func() { stt = cb.State() }, onErr)
		if stt == circuitbreaker.StateClosed && !x.dead {
			for k := 0; k < ft && !x.dead; k++ {
				x.Do("trip", func() { doExec(cbOp{kind: "exec", outcome: "fail"}) }, onErr)
			}
			x.Do("state", func() { stt = cb.State() }, onErr)
			if stt == circuitbreaker.StateOpen && !x.dead {
				gap := timeout / 4
				var rets []string
				closed := false
				// 4 gaps reach the end of the open period; st+mr+1 more admitted successes close it
				for k := 0; k < 4+2*(st+mr+1)+2 && !x.dead && !closed; k++ {
					x.Advance(gap, onErr)
					var r string
					x.Do("steady", func() { r = doExec(cbOp{kind: "exec", outcome: "ok"}) }, onErr)
					rets = append(rets, r)
					x.Do("state", func() { stt = cb.State() }, onErr)
					closed = stt == circuitbreaker.StateClosed
				}
				if !x.dead {
					if !closed {
						x.Violate("C08", "C08/no-recovery{steady-callers}", "breaker opened and a request that would succeed arrived every %v (timeout %v) for %d gaps: it never closed (ft=%d st=%d mr=%d): returns=%v", gap, timeout, len(rets), ft, st, mr, rets)
					} else {
						x.Probe("recovered-under-steady-callers")
					}
				}
			}
		}
	} else if ok && accepted && x.Want("C08") && c.Intn(3, "recovery-with-overlapping-traffic") == 0 {
		// The same claim with traffic that overlaps: every `timeout` a group of 2-4 requests
		// arrives together, every one that is admitted succeeds. Requests refused while trials
		// are in flight are not failures of the backend: after a bounded number of successful
		// requests the breaker must be closed.
		bound := st + mr + 1
		dur := []time.Duration{0, time.Millisecond, 20 * time.Millisecond, 300 * time.Millisecond}[c.Intn(4, "overlap-dur")]
		group := 2 + c.Intn(3, "overlap-group")
		succeeded, closedAfter := 0, -1
		var rets []string
		for round := 0; round < bound+2 && closedAfter < 0 && !x.dead; round++ {
			x.Advance(timeout+time.Millisecond, onErr)
			var rmu sync.Mutex
			for k := 0; k < group; k++ {
				s.Spawn("overlap", func() {
					r := doExec(cbOp{kind: "exec", outcome: "ok", dur: dur})
					rmu.Lock()
					rets = append(rets, r)
					if r == "nil" {
						succeeded++
					}
					rmu.Unlock()
				})
			}
			if !x.RunTasks(onErr) {
				break
			}
			var stt circuitbreaker.State
			x.Do("state", func() { stt = cb.State() }, onErr)
			if stt == circuitbreaker.StateClosed {
				closedAfter = succeeded
			}
		}
		if !x.dead {
			if closedAfter < 0 || closedAfter > bound+group {
				x.Violate("C08", "C08/no-recovery{overlapping-traffic}", "breaker not CLOSED after %d rounds of %d overlapping requests one timeout apart, %d of which ran and succeeded (ft=%d st=%d mr=%d): returns=%v", bound+2, group, succeeded, ft, st, mr, rets)
			} else {
				x.Probe("recovered-under-overlapping-traffic")
			}
		}
	} else if ok && accepted && x.Want("C08") {
		// Whenever requests would succeed again: after at most `timeout` plus a
		// bounded number of successful requests the breaker is closed and admits.
		x.Advance(timeout+time.Millisecond, onErr)
		bound := st + mr + 1
		closedAt := -1
		var rets []string
		for k := 0; k < bound+2 && !x.dead; k++ {
			var r string
			x.Do("recover", func() { r = doExec(cbOp{kind: "exec", outcome: "ok"}) }, onErr)
			rets = append(rets, r)
			var stt circuitbreaker.State
			x.Do("state", func() { stt = cb.State() }, onErr)
			if stt == circuitbreaker.StateClosed && closedAt < 0 {
				closedAt = k + 1
			}
			if closedAt >= 0 && k+1 > closedAt {
				// one more request after closing must be admitted
				if r != "nil" {
					x.Violate("C08", "C08/closed-but-rejects", "after recovery the breaker is CLOSED but request returned %s", r)
				}
				break
			}
		}
		if !x.dead {
			if closedAt < 0 || closedAt > bound {
				rel := "st<=mr"
				if st > mr {
					rel = "success_threshold>max_requests"
				}
				x.Violate("C08", "C08/no-recovery{"+rel+"}", "breaker not CLOSED after timeout + %d successful requests (ft=%d st=%d mr=%d): returns=%v closedAt=%d", bound, ft, st, mr, rets, closedAt)
			} else {
				x.Probe("recovered")
			}
		}
	}
	x.State(fmt.Sprint(ft, st, mr), fmt.Sprint(len(evs)))
	if left := s.Teardown(); left > 0 {
		x.Probe("teardown-left")
	}
}

// checkCBHistory applies the C07 envelope rules (and the "closed admits"
// clause of C08) to a recorded history.
func checkCBHistory(x *X, evs []cbEvent, ft, st, mr int, interval, timeout time.Duration) {
	type reqInfo struct {
		inv, start, end, ret *cbEvent
	}
	reqs := map[int]*reqInfo{}
	var trans []*cbEvent
	for i := range evs {
		e := &evs[i]
		if e.kind == "trans" {
			trans = append(trans, e)
			continue
		}
		r := reqs[e.req]
		if r == nil {
			r = &reqInfo{}
			reqs[e.req] = r
		}
		switch e.kind {
		case "inv":
			r.inv = e
		case "start":
			r.start = e
		case "end":
			r.end = e
		case "ret":
			r.ret = e
		}
	}
	// state as a function of seq: state after the last transition with seq < s
	stateAt := func(seq uint64) (string, *cbEvent) {
		stt, last := "CLOSED", (*cbEvent)(nil)
		for _, t := range trans {
			if t.seq < seq {
				stt = afterGT(t.out)
				last = t
			}
		}
		return stt, last
	}
	transBetween := func(a, b uint64) bool {
		for _, t := range trans {
			if t.seq > a && t.seq < b {
				return true
			}
		}
		return false
	}
	// sanity of the transition chain itself
	prev := "CLOSED"
	for _, t := range trans {
		from, to := beforeGT(t.out), afterGT(t.out)
		if from != prev {
			x.Violate("C07", "C07/transition-chain", "transition %s does not start from the previous state %s", t.out, prev)
		}
		if from == "CLOSED" && to == "HALF-OPEN" || from == "OPEN" && to == "CLOSED" {
			x.Violate("C07", "C07/illegal-transition{"+t.out+"}", "illegal transition %s at t=%v", t.out, t.at)
		}
		prev = to
	}

	ids := make([]int, 0, len(reqs))
	for id := range reqs {
		ids = append(ids, id)
	}
	sortInts(ids)

	for _, id := range ids {
		r := reqs[id]
		if r.inv == nil || r.ret == nil {
			continue
		}
		stInv, tInv := stateAt(r.inv.seq)
		// R1: open for the whole [inv, start] ⇒ must not start
		if r.start != nil && stInv == "OPEN" && !transBetween(r.inv.seq, r.start.seq) {
			x.Violate("C07", "C07/admitted-while-open", "request %d ran its backend call while the breaker was OPEN (opened t=%v, invoked t=%v, timeout %v)", id, tInv.at, r.inv.at, timeout)
		}
		// R1b: open during whole [inv, ret] and timeout not elapsed ⇒ open error
		if stInv == "OPEN" && !transBetween(r.inv.seq, r.ret.seq) && r.inv.at < tInv.at+timeout {
			if r.ret.out != "open" {
				x.Violate("C07", "C07/open-wrong-rejection{"+r.ret.out+"}", "request %d invoked at t=%v while OPEN since t=%v (timeout %v) returned %q instead of the open error", id, r.inv.at, tInv.at, timeout, r.ret.out)
			}
			x.Probe("rejected-while-open")
		}
		// C08 clause: closed during the whole [inv, ret] ⇒ admitted
		if stInv == "CLOSED" && !transBetween(r.inv.seq, r.ret.seq) && r.start == nil {
			x.Violate("C08", "C08/closed-but-rejects", "request %d was rejected (%s) although the breaker was CLOSED throughout", id, r.ret.out)
		}
	}

	// per-transition rules
	for ti, t := range trans {
		from, to := beforeGT(t.out), afterGT(t.out)
		var next *cbEvent
		if ti+1 < len(trans) {
			next = trans[ti+1]
		}
		nextSeq := ^uint64(0)
		if next != nil {
			nextSeq = next.seq
		}
		switch {
		case from == "OPEN" && to == "HALF-OPEN":
			// R2: not before open-time + timeout
			var opened *cbEvent
			for j := ti - 1; j >= 0; j-- {
				if afterGT(trans[j].out) == "OPEN" {
					opened = trans[j]
					break
				}
			}
			if opened != nil && t.at < opened.at+timeout {
				x.Violate("C07", "C07/half-open-too-early", "OPEN at t=%v, HALF-OPEN at t=%v, timeout %v", opened.at, t.at, timeout)
			}
			// R3: at most mr trials started within the episode
			trials := 0
			okTrials := 0
			for _, id := range ids {
				r := reqs[id]
				if r.start != nil && r.start.seq > t.seq && r.start.seq < nextSeq && (opened == nil || r.inv.seq > opened.seq) {
					trials++
					if r.end != nil && r.end.out == "ok" && r.end.seq < nextSeq {
						okTrials++
					}
					// R4: a completed trial failure ⇒ OPEN no later than its return
					if r.end != nil && r.end.out != "ok" && r.ret != nil && r.ret.seq < nextSeq {
						x.Violate("C07", "C07/trial-failure-did-not-reopen", "trial request %d failed (%s) in HALF-OPEN but the breaker had not reopened when it returned", id, r.end.out)
					}
				}
			}
			if trials > mr {
				x.Violate("C07", "C07/half-open-over-admission", "%d trial requests were admitted in one HALF-OPEN episode, max_requests=%d", trials, mr)
			}
			if trials >= 2 {
				x.Probe("two-trials-in-half-open")
			}
			// closing requires st successful trials of this episode
			if next != nil && afterGT(next.out) == "CLOSED" && okTrials < st {
				x.Violate("C07", "C07/closed-without-enough-trial-successes", "HALF-OPEN -> CLOSED after %d successful trials of the episode, success_threshold=%d", okTrials, st)
			}
		case from == "CLOSED" && to == "OPEN":
			// R5: needs >= ft failures completed since the breaker was last closed
			since := uint64(0)
			for j := ti - 1; j >= 0; j-- {
				if afterGT(trans[j].out) == "CLOSED" {
					since = trans[j].seq
					break
				}
			}
			fails := 0
			for _, id := range ids {
				r := reqs[id]
				// a failure is accounted somewhere between its "end" and its "ret" event, so it
				// may belong to this closed episode iff it returned after the episode began and
				// ended before the transition (envelope: generous on both sides)
				if r.end != nil && r.end.out != "ok" && r.ret != nil && r.ret.seq > since && r.end.seq < t.seq {
					fails++
				}
			}
			if fails < ft {
				x.Violate("C07", "C07/opened-below-threshold", "CLOSED -> OPEN after %d failures, failure_threshold=%d", fails, ft)
			}
		}
	}

	// R6 (must open): ft failures completing in one CLOSED episode with gaps <= interval
	// and the breaker still CLOSED when the last one returned.
	type fail struct {
		end, ret *cbEvent
	}
	var fails []fail
	for _, id := range ids {
		r := reqs[id]
		if r.end != nil && r.end.out != "ok" && r.ret != nil {
			fails = append(fails, fail{r.end, r.ret})
		}
	}
	sortFails := func() {
		for i := 1; i < len(fails); i++ {
			for j := i; j > 0 && fails[j].ret.seq < fails[j-1].ret.seq; j-- {
				fails[j], fails[j-1] = fails[j-1], fails[j]
			}
		}
	}
	sortFails()
	for i := 0; i+ft <= len(fails); i++ {
		w := fails[i : i+ft]
		okWin := true
		// all within a single closed episode: state CLOSED at the first end, no transition until last ret
		stt, _ := stateAt(w[0].end.seq)
		if stt != "CLOSED" || transBetween(w[0].end.seq, w[ft-1].ret.seq) {
			okWin = false
		}
		for k := 1; k < ft && okWin; k++ {
			if w[k].ret.at-w[k-1].ret.at > interval {
				okWin = false
			}
		}
		// a request arriving more than `interval` after the last failure legitimately
		// resets the count; with all gaps <= interval no reset can happen between them.
		if okWin {
			x.Violate("C07", "C07/did-not-open", "%d failures completed at t=%v..%v (interval %v) in CLOSED state and the breaker did not open", ft, w[0].ret.at, w[ft-1].ret.at, interval)
		}
	}
	if len(trans) > 0 {
		x.Probe("breaker-transitioned")
	}
}

func beforeGT(s string) string {
	for i := 0; i < len(s); i++ {
		if s[i] == '>' {
			return s[:i]
		}
	}
	return s
}

func afterGT(s string) string {
	for i := 0; i < len(s); i++ {
		if s[i] == '>' {
			return s[i+1:]
		}
	}
	return s
}

func sortInts(a []int) {
	for i := 1; i < len(a); i++ {
		for j := i; j > 0 && a[j] < a[j-1]; j-- {
			a[j], a[j-1] = a[j-1], a[j]
		}
	}
}
