package main

// Scenario "sysxfer": end-to-end transparency and streaming (C01), with the
// request-ID / trace-ID invariants of C16 checked on every exchange. No
// transforming plugin (none, or `logging`); only benign network
// nondeterminism (fragmentation, small delays, interleaving of clients,
// keep-alive reuse).

import (
	"bytes"
	"fmt"
	"strings"
	"time"

	"github.com/0xReLogic/Helios/internal/config"
	"github.com/0xReLogic/Helios/internal/logging"
)

func init() {
	register(&Scenario{Name: "sysxfer", Props: []string{"C01", "C16", "C13"}, Kind: "system", Run: runSysXfer})
}

func genBody(x *X, label string, maxKB int) []byte {
	c := x.C
	var n int
	switch c.Intn(10, label+"-size") {
	case 0, 1:
		n = 0
	case 2:
		n = 1 + c.Intn(64, label+"-n")
	case 3:
		n = 4090 + c.Intn(12, label+"-n")
	case 4:
		n = 32*1024 - 3 + c.Intn(7, label+"-n")
	case 5:
		n = 1 + c.Intn(2048, label+"-n")
	case 6:
		n = 64*1024 + c.Intn(9000, label+"-n")
	case 7:
		n = c.Intn(maxKB*1024, label+"-n")
	case 8:
		n = 100 + c.Intn(900, label+"-n")
	case 9:
		n = 8192 + c.Intn(3, label+"-n")
	}
	b := make([]byte, n)
	seed := uint32(c.Intn(1<<16, label+"-seed"))
	for i := range b {
		seed = seed*1664525 + 1013904223
		const alphabet = "abcdefghijklmnopqrstuvwxyz0123456789 \n{}\":,"
		b[i] = alphabet[int(seed>>24)%len(alphabet)]
	}
	return b
}

func genPieces(x *X, n int, label string) []int {
	c := x.C
	if n == 0 || c.Intn(2, label+"-split") == 0 {
		return nil
	}
	k := 1 + c.Intn(4, label+"-npieces")
	var ps []int
	for i := 0; i < k; i++ {
		ps = append(ps, 1+c.Intn(n, label+"-piece"))
	}
	return ps
}

var reqHeaderPalette = [][]hdrKV{
	{{"Accept", "*/*"}},
	{{"Accept", "text/html"}, {"Accept", "application/json;q=0.9"}},
	{{"Cookie", "a=1; b=2"}},
	{{"x-CuStOm-hEaDer", "MiXeD Case Value"}},
	{{"X-Empty", ""}},
	{{"Authorization", "Bearer abc.def.ghi"}},
	{{"X-Multi", "one"}, {"X-Multi", "two"}, {"X-Multi", "three"}},
	{{"Accept-Language", "en-US,en;q=0.5"}},
	{{"User-Agent", "sim-client/1.0"}},
	{{"Accept-Encoding", "identity"}},
	{{"Accept-Encoding", "br"}},
	{{"If-None-Match", "\"etag-1\""}},
	{{"X-Long", strings.Repeat("v", 700)}},
	{{"Cache-Control", "no-cache"}, {"Pragma", "no-cache"}},
	{{"Content-Type", "application/json"}},
	{{"Range", "bytes=0-99"}},
	// set by a proxy in front of Helios: end-to-end as far as Helios is concerned
	{{"Forwarded", "for=203.0.113.5;proto=https;host=shop.example"}},
	{{"X-Forwarded-Proto", "https"}, {"X-Forwarded-Host", "shop.example"}},
	{{"Via", "1.1 edge"}},
	{{"Referer", "https://shop.example/a?b=c"}, {"Origin", "https://shop.example"}},
	// other tracing systems' headers travel along untouched and do not change Helios' own identifiers
	{{"traceparent", "00-4bf92f3577b34da6a3ce929d0e0e4736-00f067aa0ba902b7-01"}},
	{{"traceparent", "00-0af7651916cd43dd8448eb211c80319c-b7ad6b7169203331-00"}, {"tracestate", "vendor=opaque"}},
	{{"X-B3-TraceId", "463ac35c9f6413ad48485a3953bb6124"}, {"X-B3-SpanId", "a2fb4a1d1a96d312"}},
	// field names are tokens: underscores, digits and odd casing are as good as dashes
	{{"X_Api_Key", "k-123"}},
	{{"x_client_build", "77"}, {"X-Tenant_Id", "t9"}},
	{{"X-1-Numeric-2", "n"}, {"x-UPPER-lower", "v"}},
	// header lines with an empty value are lines all the same
	{{"X-Empty", ""}},
	{{"X-Flags", ""}, {"X-Flags", "b"}},
}

var respHeaderPalette = [][]hdrKV{
	{{"Content-Type", "text/plain; charset=utf-8"}},
	{{"Content-Type", "application/json"}},
	{{"Content-Type", "application/octet-stream"}},
	{{"Set-Cookie", "sid=1; Path=/"}, {"Set-Cookie", "theme=dark"}},
	{{"X-Backend-Custom", "Some Value"}},
	{{"Cache-Control", "max-age=60"}, {"Vary", "Accept"}},
	{{"ETag", "\"abc\""}},
	{{"Location", "/elsewhere?x=1"}},
	// absolute locations, also ones that name a backend's own address: what the backend says is
	// what the client is told (rewriting redirects is a feature nobody configured)
	{{"Location", "http://10.20.0.1:80/next"}},
	{{"Location", "http://10.20.0.2:80/a/b?c=d"}},
	{{"Location", "https://other.example/landing"}},
	{{"X-Odd-cAsE", "1"}},
	{{"Server", "backend/1.0"}},
	{{"Date", "Mon, 01 Jan 2024 00:00:00 GMT"}},
	{{"Content-Language", "en"}},
	{{"X-Multi", "a"}, {"X-Multi", "b"}},
	{{"X_Backend_Build", "b7"}, {"x_trace_flags", "01"}},
	// present-but-empty is not the same as absent
	{{"X-Empty-Resp", ""}},
	{{"Content-Type", ""}},
	{{"Content-Type", ""}, {"Content-Type", "application/octet-stream"}},
	{{"X-Multi", ""}, {"X-Multi", "b"}, {"X-Multi", ""}},
	bigCookies(48, 1000), // a response head of ~48 KB (session stores, CSP/Link lists): the head has no small limit
	bigCookies(6, 9000),
}

func bigCookies(n, size int) []hdrKV {
	var out []hdrKV
	for i := 0; i < n; i++ {
		out = append(out, hdrKV{"Set-Cookie", fmt.Sprintf("c%d=%s; Path=/", i, strings.Repeat(string(rune('a'+i%26)), size))})
	}
	return out
}

func genExchange(x *X, env *sysEnv, cl *sClient, streaming bool) *exchange {
	c := x.C
	ex := env.newExchange(cl)
	ex.method = []string{"GET", "GET", "POST", "PUT", "DELETE", "HEAD", "OPTIONS", "PATCH"}[c.Intn(8, "method")]
	ex.target = []string{"/", "/a/b/c", "/path%20with%20space", "/x%2Fy", "/q?x=1&y=2&y=3", "/caf%C3%A9?%C3%A9=1", "/a//b", "/very/" + strings.Repeat("long/", 20), "/?", "/semi;colon=1?a=b;c", "/pct?x=100%&y=%zz", "/order?b=2&a=1&b=1", "/sp?q=a+b%20c&empty=&novalue"}[c.Intn(13, "target")]
	// the Host the client addresses: virtual hosts are told apart by it, spelled as the client spells it
	ex.host = []string{"", "", "", "Shop.Example.TEST", "www.example.test:80", "API.example.test:8080", "[2001:DB8::1]:80", "xn--caf-dma.example"}[c.Intn(8, "host")]
	nh := c.Intn(4, "nreqhdr")
	used := map[string]bool{}
	for i := 0; i < nh; i++ {
		g := reqHeaderPalette[c.Intn(len(reqHeaderPalette), "reqhdr")]
		if used[strings.ToLower(g[0].K)] {
			continue
		}
		used[strings.ToLower(g[0].K)] = true
		ex.hdr = append(ex.hdr, g...)
	}
	if c.Intn(5, "xff") == 0 {
		ex.hdr = append(ex.hdr, hdrKV{"X-Forwarded-For", "203.0.113.5, 198.51.100.9"})
	}
	// (a body on GET / HEAD / OPTIONS / DELETE is unusual and legal: what the client framed is what the backend gets)
	if ex.method == "POST" || ex.method == "PUT" || ex.method == "PATCH" || (ex.method == "DELETE" && c.Intn(3, "delbody") == 0) || c.Intn(6, "body-anyway") == 0 {
		ex.body = genBody(x, "req", 200)
		ex.chunked = c.Intn(3, "reqchunked") == 0
		ex.pieces = genPieces(x, len(ex.body), "req")
	}
	ex.newConn = c.Intn(4, "newconn") == 0
	rs := &respScript{}
	ex.resp = rs
	rs.status = []int{200, 200, 200, 201, 204, 301, 302, 304, 400, 404, 418, 500, 502, 503, 206, 429, 401}[c.Intn(17, "status")] // (429/401/503 from the backend: statuses Helios also produces itself)
	if len(ex.body) > 0 && !streaming && c.Intn(5, "expect-continue") == 0 {
		ex.expect = []string{"accept", "decline"}[c.Intn(2, "expect-mode")]
		ex.hdr = append(ex.hdr, hdrKV{"Expect", "100-continue"})
		if ex.expect == "decline" {
			rs.status = []int{401, 403, 413, 417}[c.Intn(4, "decline-status")]
			rs.closeAfter = true
		}
	}
	nrh := c.Intn(4, "nresphdr")
	usedR := map[string]bool{}
	for i := 0; i < nrh; i++ {
		g := respHeaderPalette[c.Intn(len(respHeaderPalette), "resphdr")]
		if usedR[g[0].K] {
			continue
		}
		usedR[g[0].K] = true
		rs.hdr = append(rs.hdr, g...)
	}
	if !usedR["Content-Type"] && c.Intn(4, "no-ctype") != 0 {
		rs.hdr = append(rs.hdr, hdrKV{"Content-Type", "text/plain"})
	}
	rs.body = genBody(x, "resp", 200)
	rs.framing = []string{"cl", "cl", "chunked", "close"}[c.Intn(4, "framing")]
	if rs.status == 204 || rs.status == 304 {
		rs.body = nil
		rs.framing = "none"
	}
	if rs.status == 304 {
		// net/http's server itself removes Content-Type from a 304 (suppressedHeaders);
		// nothing in Helios can keep it, so the generator does not send one
		var hs []hdrKV
		for _, kv := range rs.hdr {
			if kv.K != "Content-Type" {
				hs = append(hs, kv)
			}
		}
		rs.hdr = hs
	}
	if c.Intn(8, "interim") == 0 {
		rs.interim = []int{103}
	}
	// split the body into writes
	if len(rs.body) > 0 {
		k := c.Intn(4, "nwrites")
		for i := 0; i < k; i++ {
			rs.steps = append(rs.steps, respStep{kind: "write", n: 1 + c.Intn(len(rs.body), "wsize")})
		}
	}
	if streaming && ex.method != "HEAD" && rs.status == 200 {
		// a stream: small events flushed with long pauses in between
		rs.framing = "chunked"
		if c.Intn(2, "sse") == 1 {
			rs.hdr = []hdrKV{{"Content-Type", "text/event-stream"}, {"Cache-Control", "no-cache"}}
		} else {
			rs.hdr = []hdrKV{{"Content-Type", "application/x-ndjson"}}
		}
		n := 2 + c.Intn(4, "nevents")
		rs.body = nil
		rs.steps = nil
		for i := 0; i < n; i++ {
			ev := []byte(fmt.Sprintf("data: event %d %s\n\n", i, strings.Repeat("x", c.Intn(200, "evlen"))))
			rs.body = append(rs.body, ev...)
			rs.steps = append(rs.steps, respStep{kind: "write", n: len(ev)})
			if i+1 < n {
				rs.steps = append(rs.steps, respStep{kind: "sleep", d: time.Duration(2+c.Intn(4, "gap")) * time.Second})
			}
		}
		if c.Intn(3, "idle-first") == 0 {
			// the stream opens and stays silent for a while: the head alone must get through
			rs.steps = append([]respStep{{kind: "sleep", d: time.Duration(2+c.Intn(4, "idle")) * time.Second}}, rs.steps...)
		}
	}
	// trailers after a chunked body (possibly an empty one)
	if rs.framing == "chunked" && ex.method != "HEAD" && rs.status != 204 && rs.status != 304 && c.Intn(5, "trailer") == 0 {
		rs.trailer = []hdrKV{{"X-Checksum", "crc32=1c291ca3"}}
		if c.Intn(2, "trailer2") == 1 {
			rs.trailer = append(rs.trailer, hdrKV{"Server-Timing", "db;dur=53"})
		}
	}
	return ex
}

func runSysXfer(x *X) {
	c := x.C
	o := sysOpts{strategy: strategies[c.Intn(5, "strategy")], nBackends: 1 + c.Intn(4, "nbackends")}
	for i := 0; i < o.nBackends; i++ {
		o.basePath = append(o.basePath, []string{"", "", "/api", "/v1/svc"}[c.Intn(4, "base")])
		o.weights = append(o.weights, 1+c.Intn(3, "w"))
	}
	// streams last up to ~25 s of virtual time; keep the server's own timeouts out of the way
	o.timeouts = config.TimeoutConfig{Read: 300, Write: 300, Idle: 300, BackendRead: 300}
	o.logging.RequestID.Enabled = c.Intn(2, "rid") == 1
	o.logging.Trace.Enabled = c.Intn(2, "tid") == 1
	if c.Intn(3, "custom-id-hdr") == 0 {
		o.logging.RequestID.Header = "X-Correlation-Id"
		o.logging.Trace.Header = "X-B3-Traceid"
	}
	if c.Intn(3, "logging-plugin") == 0 {
		o.plugins = []config.PluginConfig{{Name: "logging"}}
	}
	// features that are on but have no reason to act (a circuit breaker that never sees enough failures,
	// a rate limiter nobody comes near, passive health checks with a threshold out of reach) transform
	// nothing: the exchange passes through their wrappers and comes out as it went in
	if c.Intn(3, "idle-breaker") == 0 {
		o.breaker = &config.CircuitBreakerConfig{Enabled: true, MaxRequests: 5, IntervalSeconds: 1, TimeoutSeconds: 1, FailureThreshold: 100000, SuccessThreshold: 1}
		x.Probe("transparency-through-idle-breaker")
	}
	if c.Intn(4, "idle-limiter") == 0 {
		o.limiter = &config.RateLimitConfig{Enabled: true, MaxTokens: 1000000, RefillRate: 1}
	}
	if c.Intn(4, "idle-passive") == 0 {
		o.passive, o.threshold, o.window = true, 100000, 1
	}
	env, err := newSysEnv(x, o)
	if err != nil {
		panic(err)
	}
	defer env.close()
	nClients := 1 + c.Intn(3, "nclients")
	nEx := 3 + c.Intn(8, "nexchanges")
	if x.Tier == "thorough" {
		nEx += c.Intn(8, "nexchanges2")
	}
	peers := []string{"198.51.100.10:50000", "198.51.100.11:50001", "[2001:db8::77]:50002"}
	for i := 0; i < nClients; i++ {
		env.addClient(peers[i])
	}
	var all []*exchange
	for i := 0; i < nEx; i++ {
		cl := env.clients[c.Intn(nClients, "client")]
		ex := genExchange(x, env, cl, c.Intn(5, "streaming") == 0)
		// a backend that stamps its own value on the identifier header (an app server with its own
		// request-ID middleware): the client still gets one value, the one the backend was sent
		// (with the feature off the header is the backend's business and passes through: not drawn)
		if ex.resp != nil && c.Intn(8, "backend-stamps-id") == 0 {
			if o.logging.RequestID.Enabled {
				ex.resp.hdr = append(ex.resp.hdr, hdrKV{logging.RequestHeaderName(env.cfg.Logging), fmt.Sprintf("backend-own-rid-%d", i)})
				x.Probe("backend-stamps-its-own-identifier")
			}
			if o.logging.Trace.Enabled && c.Intn(2, "backend-stamps-trace") == 1 {
				ex.resp.hdr = append(ex.resp.hdr, hdrKV{logging.TraceHeaderName(env.cfg.Logging), fmt.Sprintf("backend-own-tid-%d", i)})
				x.Probe("backend-stamps-its-own-identifier")
			}
		}
		all = append(all, ex)
	}
	x.Sample["config"] = fmt.Sprintf("strategy=%s backends=%d bases=%v request_id=%v trace=%v plugins=%d clients=%d exchanges=%d", o.strategy, o.nBackends, o.basePath, o.logging.RequestID.Enabled, o.logging.Trace.Enabled, len(o.plugins), nClients, nEx)
	var desc []string
	for _, ex := range all {
		desc = append(desc, fmt.Sprintf("c%d %s %s reqbody=%d chunked=%v -> %d %s body=%d writes=%d interim=%v", ex.client, ex.method, ex.target, len(ex.body), ex.chunked, ex.resp.status, ex.resp.framing, len(ex.resp.body), len(ex.resp.steps), ex.resp.interim))
	}
	x.Sample["exchanges"] = desc
	x.Logf("sysxfer %s", x.Sample["config"])
	ok := env.drive(driveOpts{fragment: true, delays: true})
	for _, p := range stdLogWatcher.take() {
		x.Violate("C03", "C03/panic-serving", "net/http reported: %s", p)
	}
	if !ok {
		x.Violate("C01", "C01/exchange-did-not-complete", "a fault-free exchange did not complete within the simulated time budget")
		return
	}
	rh, th := logging.RequestHeaderName(env.cfg.Logging), logging.TraceHeaderName(env.cfg.Logging)
	genIDs := map[string]int{}
	for _, ex := range all {
		checkTransparent(x, env, ex, rh, th, genIDs)
	}
	for id, n := range genIDs {
		if n > 1 {
			x.Violate("C16", "C16/duplicate-generated-id", "an identifier was generated %d times within one run (%s...)", n, id[:4])
		}
	}
	// ---- C13: every fault-free exchange is in exactly the class its final status puts it in ----
	if x.Want("C13") {
		waitQuiet()
		var wantOK, wantFail uint64
		perOK, perFail := map[string]uint64{}, map[string]uint64{}
		clean := true
		for _, ex := range all {
			if ex.retried || ex.got == nil || ex.got.status == 0 || len(ex.seen) != 1 {
				clean = false
				break
			}
			if ex.got.status >= 500 {
				wantFail++
				perFail[ex.seen[0].backend]++
			} else {
				wantOK++
				perOK[ex.seen[0].backend]++
			}
		}
		if clean {
			m := env.lb.GetMetricsCollector().GetMetrics()
			if m.SuccessfulRequests != wantOK || m.FailedRequests != wantFail || m.TotalRequests != wantOK+wantFail {
				x.Violate("C13", "C13/wrong-class{system}", "after %d fault-free exchanges with final statuses giving %d successful and %d failed (5xx), the metrics say total=%d successful=%d failed=%d", len(all), wantOK, wantFail, m.TotalRequests, m.SuccessfulRequests, m.FailedRequests)
			}
			for name, bm := range m.BackendMetrics {
				if bm.SuccessfulRequests != perOK[name] || bm.FailedRequests != perFail[name] {
					x.Violate("C13", "C13/wrong-class{per-backend}", "backend %s answered %d non-5xx and %d 5xx; its metrics say successful=%d failed=%d total=%d", name, perOK[name], perFail[name], bm.SuccessfulRequests, bm.FailedRequests, bm.TotalRequests)
				}
			}
			x.Probe("classes-checked")
		}
	}
}

func baseOf(env *sysEnv, backend string) string {
	for _, b := range env.backends {
		if b.name == backend {
			return b.base
		}
	}
	return ""
}

// checkTransparent applies the C01 differential oracle (and the C16
// propagation invariants) to one fault-free exchange.
func checkTransparent(x *X, env *sysEnv, ex *exchange, rh, th string, genIDs map[string]int) {
	checkTransparentAs(x, "C01", env, ex, rh, th, genIDs)
}

// checkTransparentAs reports transparency violations under property `prop`
// (C01 itself, or C14/C15 for "exchanges within the limits pass unchanged").
func checkTransparentAs(x *X, prop string, env *sysEnv, ex *exchange, rh, th string, genIDs map[string]int) {
	got := ex.got
	if ex.dialErr != "" || got == nil {
		x.Violate(prop, prop+"/no-response", "exchange %d (%s %s): no response (%s)", ex.id, ex.method, ex.target, ex.dialErr)
		return
	}
	if got.err != "" {
		x.Violate(prop, prop+"/response-error", "exchange %d (%s %s -> scripted %d %s %dB): client failed with %s after %d body bytes", ex.id, ex.method, ex.target, ex.resp.status, ex.resp.framing, len(ex.resp.body), got.err, len(got.body))
		return
	}
	if len(ex.seen) != 1 {
		x.Violate(prop, prop+fmt.Sprintf("/backend-saw-%d-requests", len(ex.seen)), "exchange %d reached backends %d times", ex.id, len(ex.seen))
		return
	}
	sr := ex.seen[0]
	rs := ex.resp
	cl := env.clients[ex.client]
	peerIP := cl.addr[:strings.LastIndex(cl.addr, ":")]
	peerIP = strings.Trim(peerIP, "[]")
	ridOn, tidOn := env.cfg.Logging.RequestID.Enabled, env.cfg.Logging.Trace.Enabled

	// ---- request side ---------------------------------------------------------
	if sr.method != ex.method {
		x.Violate(prop, prop+"/method-differs", "exchange %d: client sent %s, backend saw %s", ex.id, ex.method, sr.method)
	}
	wantTarget := baseOf(env, sr.backend) + ex.target
	if sr.target != wantTarget {
		x.Violate(prop, prop+"/target-differs", "exchange %d: client sent %q (backend base %q), backend saw %q, expected %q", ex.id, ex.target, baseOf(env, sr.backend), sr.target, wantTarget)
	}
	wantHost := ex.host
	if wantHost == "" {
		wantHost = "helios.test"
	}
	if sr.host != wantHost {
		x.Violate(prop, prop+"/host-differs", "exchange %d: the client sent Host %q, the backend received Host %q", ex.id, wantHost, sr.host)
	}
	if ex.expect == "decline" {
		// the backend answered without reading the body: nothing to compare on the body, but the
		// client must not have been told to go ahead by anyone
		for _, code := range got.interim {
			if code == 100 {
				x.Violate(prop, prop+"/100-continue-not-from-backend", "exchange %d: the backend declined the upload with %d without sending 100 Continue, but the client received a 100 Continue first (interim %v)", ex.id, rs.status, got.interim)
			}
		}
		x.Probe("expect-declined-checked")
	} else if !bytes.Equal(sr.body, ex.body) {
		x.Violate(prop, prop+"/body-differs{request}", "exchange %d: request body of %d bytes arrived as %d bytes (err %q)", ex.id, len(ex.body), len(sr.body), sr.bodyErr)
	}
	if ex.expect == "accept" {
		n100 := 0
		for _, code := range got.interim {
			if code == 100 {
				n100++
			}
		}
		// One is the backend's, forwarded. A second one is net/http's doing, not Helios': the
		// transport releases the request body as soon as it has read the backend's 100 and only
		// then hands that 100 to the proxy for forwarding; if the body read (which makes Helios'
		// own server send its automatic 100) wins that race, the forwarded one follows as a second
		// interim response (seen once in 250000 runs of the thorough tier, and not replayable:
		// the Go scheduler decides). Two are equivalent to one for any HTTP client.
		if n100 == 2 {
			x.Probe("second-100-continue-from-net/http")
		}
		if n100 < 1 || n100 > 2 {
			x.Violate(prop, prop+fmt.Sprintf("/100-continue-count{%d}", n100), "exchange %d: the backend sent one 100 Continue, the client received %d (interim %v)", ex.id, n100, got.interim)
		}
		x.Probe("expect-accepted-checked")
	}
	if len(ex.body) > 0 && sr.chunked != ex.chunked && ex.expect != "decline" {
		x.Violate(prop, prop+fmt.Sprintf("/request-reframed{chunked:%v->%v}", ex.chunked, sr.chunked), "exchange %d: request framing changed (client chunked=%v, backend saw chunked=%v, content-length %d)", ex.id, ex.chunked, sr.chunked, sr.clen)
	}
	sent := map[string][]string{}
	var clientXFF []string
	clientRID, clientTID := "", ""
	for _, kv := range ex.hdr {
		k := httpCanon(kv.K)
		switch k {
		case "X-Forwarded-For":
			clientXFF = append(clientXFF, kv.V)
			continue
		}
		if k == httpCanon(rh) {
			clientRID = kv.V
		}
		if k == httpCanon(th) {
			clientTID = kv.V
		}
		sent[k] = append(sent[k], kv.V)
	}
	drop := []string{"X-Sim-Token", "X-Forwarded-For", "Content-Length"}
	if ridOn {
		drop = append(drop, rh)
	}
	if tidOn {
		drop = append(drop, th)
	}
	sawE2E := endToEnd(sr.hdr, drop...)
	sentE2E := endToEnd(headerOf(sent), drop...)
	if d := diffHeaders(sentE2E, sawE2E); d != "" {
		x.Violate(prop, prop+"/request-headers{"+diffKinds(sentE2E, sawE2E)+"}", "exchange %d: end-to-end request headers differ at the backend: %s", ex.id, d)
	}
	wantXFF := strings.Join(append(append([]string{}, clientXFF...), peerIP), ", ")
	if gotXFF := strings.Join(sr.hdr["X-Forwarded-For"], ", "); gotXFF != wantXFF {
		x.Violate(prop, prop+"/x-forwarded-for", "exchange %d: backend saw X-Forwarded-For %q, expected %q", ex.id, gotXFF, wantXFF)
	}

	// ---- response side ----------------------------------------------------------
	if got.status != rs.status {
		x.Violate(prop, prop+fmt.Sprintf("/status-differs{%d->%d}", rs.status, got.status), "exchange %d: backend sent %d, client got %d", ex.id, rs.status, got.status)
	}
	gotInterim := got.interim
	if ex.expect != "" {
		// 100 Continue is judged above (it is per hop); here: the other interim responses
		gotInterim = nil
		for _, code := range got.interim {
			if code != 100 {
				gotInterim = append(gotInterim, code)
			}
		}
	}
	if fmt.Sprint(gotInterim) != fmt.Sprint(rs.interim) && !(len(gotInterim) == 0 && len(rs.interim) == 0) {
		x.Violate(prop, prop+"/interim-responses-differ", "exchange %d: backend sent interim %v, client got %v", ex.id, rs.interim, got.interim)
	}
	wantBody := rs.body
	if ex.method == "HEAD" {
		wantBody = nil
	}
	if !bytes.Equal(got.body, wantBody) {
		x.Violate(prop, prop+"/body-differs{response}", "exchange %d (%s -> %d %s): backend sent %d body bytes, client got %d", ex.id, ex.method, rs.status, rs.framing, len(wantBody), len(got.body))
	}
	scriptH := map[string][]string{}
	hasDate := false
	for _, kv := range rs.hdr {
		k := httpCanon(kv.K)
		if k == "Date" {
			hasDate = true
		}
		scriptH[k] = append(scriptH[k], kv.V)
	}
	rdrop := []string{"Content-Length"}
	if !hasDate {
		rdrop = append(rdrop, "Date")
	}
	if ridOn {
		rdrop = append(rdrop, rh)
	}
	if tidOn {
		rdrop = append(rdrop, th)
	}
	gotE2E := endToEnd(got.hdr, rdrop...)
	wantE2E := endToEnd(headerOf(scriptH), rdrop...)
	if d := diffHeaders(wantE2E, gotE2E); d != "" {
		x.Violate(prop, prop+"/response-headers{"+diffKinds(wantE2E, gotE2E)+"}", "exchange %d (%s -> %d): end-to-end response headers differ at the client: %s", ex.id, ex.method, rs.status, d)
	}
	// framing visible to the client
	switch rs.framing {
	case "cl":
		if got.clen != int64(len(rs.body)) {
			x.Violate(prop, prop+"/response-reframed{content-length-lost}", "exchange %d (%s -> %d): backend declared Content-Length %d, client saw length %d chunked=%v", ex.id, ex.method, rs.status, len(rs.body), got.clen, got.chunked)
		}
	case "chunked":
		if ex.method != "HEAD" && got.clen >= 0 && len(rs.body) > 0 {
			x.Probe("chunked-became-content-length")
		}
	}

	// ---- trailers --------------------------------------------------------------
	if len(rs.trailer) > 0 && got.err == "" {
		wantT := map[string][]string{}
		for _, kv := range rs.trailer {
			wantT[httpCanon(kv.K)] = append(wantT[httpCanon(kv.K)], kv.V)
		}
		if d := diffHeaders(wantT, map[string][]string(got.trailer)); d != "" {
			x.Violate(prop, prop+"/trailers-differ", "exchange %d (%s -> %d chunked, %d body bytes): trailers the backend sent did not reach the client unchanged: %s", ex.id, ex.method, rs.status, len(rs.body), d)
		}
		x.Probe("trailer-checked")
	}
	// ---- streaming ------------------------------------------------------------
	if rs.framing == "chunked" && len(rs.steps) > 0 && rs.steps[0].kind == "sleep" && rs.steps[0].d >= 2*time.Second && len(ex.writes) > 0 {
		// the backend flushed its response head and stayed silent: the head must be at the
		// client before the first body byte is even produced
		x.Probe("idle-stream-head-checked")
		if got.headAt >= ex.writes[0].at {
			x.Violate(prop, prop+"/head-not-streamed", "exchange %d: the backend sent its response head at t=%v and the first body byte at t=%v, but the client had the head only at t=%v", ex.id, rs.headWrittenAt, ex.writes[0].at, got.headAt)
		}
	}
	if len(ex.writes) >= 2 && rs.framing == "chunked" {
		for i := 0; i+1 < len(ex.writes); i++ {
			w, next := ex.writes[i], ex.writes[i+1]
			if next.at-w.at < 2*time.Second {
				continue
			}
			// every byte flushed by the backend at w.at must be at the client before next.at
			have := 0
			for _, f := range got.frags {
				if f.at < next.at {
					have = f.n
				}
			}
			x.Probe("stream-gap-checked")
			if have < w.n {
				ct := strings.Join(scriptH["Content-Type"], "")
				x.Violate(prop, prop+"/not-streamed{"+ct+"}", "exchange %d: the backend flushed %d bytes by t=%v and wrote again at t=%v, but the client had only %d bytes by then (content-type %s)", ex.id, w.n, w.at, next.at, have, ct)
				break
			}
		}
	}

	// ---- C16: identifiers --------------------------------------------------------
	checkID := func(kind, hname string, on bool, clientVal string) {
		seenV := strings.Join(sr.hdr[httpCanon(hname)], ",")
		gotV := strings.Join(got.hdr[httpCanon(hname)], ",")
		if !on {
			if clientVal == "" && (seenV != "" || gotV != "") {
				x.Violate("C16", "C16/disabled-but-touched{"+kind+"}", "exchange %d: %s disabled but header %s appeared (backend %q, client %q)", ex.id, kind, hname, seenV, gotV)
			}
			if clientVal != "" && seenV != clientVal {
				x.Violate("C16", "C16/disabled-but-touched{"+kind+"}", "exchange %d: %s disabled but the client's %s %q reached the backend as %q", ex.id, kind, hname, clientVal, seenV)
			}
			return
		}
		if gotV == "" {
			x.Violate("C16", "C16/missing-on-response{"+kind+"}", "exchange %d: response carries no %s", ex.id, hname)
			return
		}
		if seenV != gotV {
			x.Violate("C16", "C16/backend-client-mismatch{"+kind+"}", "exchange %d: backend saw %s=%q, client got %q", ex.id, hname, seenV, gotV)
		}
		if clientVal != "" {
			if gotV != clientVal {
				x.Violate("C16", "C16/client-id-altered{"+kind+"}", "exchange %d: client supplied %s=%q and got back %q", ex.id, hname, clientVal, gotV)
			}
		} else {
			genIDs[gotV]++
		}
	}
	checkID("request-id", rh, ridOn, clientRID)
	checkID("trace-id", th, tidOn, clientTID)
}

func httpCanon(k string) string {
	// net/http canonicalisation
	b := []byte(k)
	up := true
	for i, ch := range b {
		if up && ch >= 'a' && ch <= 'z' {
			b[i] = ch - 32
		} else if !up && ch >= 'A' && ch <= 'Z' {
			b[i] = ch + 32
		}
		up = ch == '-'
	}
	return string(b)
}

func headerOf(m map[string][]string) map[string][]string { return m }
