package main

// Scenario "lbdist": distribution contracts of round_robin,
// weighted_round_robin and least_connections (C05), measured on the real
// balancer after a drawn history of add / remove / eject / recover, with
// sequential windows and (round_robin) concurrent pickers interleaved at the
// atomic counter and the locks by the seeded scheduler.

import (
	"fmt"
	"math"
	"strings"
	"time"

	"github.com/0xReLogic/Helios/internal/config"
	"vsim/simrt"
)

func init() {
	register(&Scenario{Name: "lbdist", Props: []string{"C05"}, Kind: "micro", Run: runLBDist})
}

func runLBDist(x *X) {
	c := x.C
	strategy := []string{"round_robin", "weighted_round_robin", "least_connections"}[c.Intn(3, "strategy")]
	nb := 1 + c.Intn(6, "nbackends")
	if x.Tier == "thorough" {
		nb = 1 + c.Intn(8, "nbackends8")
	}
	threshold := 1 + c.Intn(2, "threshold")
	window := 5 + c.Intn(20, "window")
	W := time.Duration(window) * time.Second
	type member struct {
		name   string
		weight int // configured
		host   string
	}
	var members []member
	hostN := 0
	newMember := func() member {
		hostN++
		w := c.Intn(7, "weight")
		if c.Intn(25, "heavy-weight") == 0 {
			w = []int{300, 700, 1100}[c.Intn(3, "heavy")] // one big machine next to small ones: a long cycle
		}
		return member{name: fmt.Sprintf("b%d", hostN), weight: w, host: x.BackendHost(2, hostN)}
	}
	var bcs []config.BackendConfig
	for i := 0; i < nb; i++ {
		members = append(members, newMember())
	}
	eff := func(w int) int {
		if w < 1 {
			return 1
		}
		return w
	}
	// a pool sized by a rule of thumb: one machine as strong as a multiple of all the others together
	// (its running state then passes through the same values as at the start in the middle of a cycle)
	if nb >= 3 && c.Intn(6, "one-member-multiple-of-the-rest") == 0 {
		k, rest := c.Intn(nb, "multiple-member"), 0
		for j, m := range members {
			if j != k {
				rest += eff(m.weight)
			}
		}
		members[k].weight = []int{2, 3, 6}[c.Intn(3, "multiple")] * rest
	}
	for _, m := range members {
		bcs = append(bcs, config.BackendConfig{Name: m.name, Address: "http://" + m.host, Weight: m.weight})
	}

	s := x.StartMicro()
	net := newStubNet(x)
	for _, m := range members {
		net.add(m.name, m.host, "")
	}
	onErr := func(e *simrt.SchedError) {
		x.Violate("C12", "C12/"+e.Kind+"{lbdist}", "%s", e.Error())
		x.Blocked(e, "lbdist")
	}
	var h *lbHarness
	x.Do("setup", func() {
		h, _ = newLBHarness(x, net, lbOpts{strategy: strategy, backends: bcs, passive: true, threshold: threshold, window: window})
	}, onErr)
	if h == nil {
		s.Teardown()
		return
	}
	var hist []string
	ejectedUntil := map[string]time.Duration{}
	servedBy := func(id int) string { return net.dispatchedTo(id) }
	oneReq := func(client string) (string, int) {
		var res simResult
		x.Do("req", func() { res = h.do(reqSpec{client: client}) }, onErr)
		return servedBy(res.id), res.status
	}
	flags := func() map[string]bool {
		var m map[string]bool
		x.Do("obs", func() { m = h.healthSnapshot() }, onErr)
		return m
	}

	ejectMember := func(m member) {
		b := net.byName[m.name]
		net.mu.Lock()
		b.mode = "s500"
		net.mu.Unlock()
		x.Fault("backend-s500")
		ok := false
		net.mu.Lock()
		d0 := b.dispatched
		net.mu.Unlock()
		for j := 0; j < 4*len(members)*threshold+8 && !x.dead; j++ {
			oneReq("192.0.2.1")
			net.mu.Lock()
			hit := b.dispatched > d0
			net.mu.Unlock()
			// a stale flag (window elapsed, not yet re-examined) is not an ejection: the
			// backend must have received one of these requests and be flagged afterwards
			if f := flags(); f != nil && !f[m.name] && hit {
				ok = true
				break
			}
		}
		net.mu.Lock()
		b.mode = "ok"
		net.mu.Unlock()
		if ok {
			ejectedUntil[m.name] = x.Now() + W
			hist = append(hist, "eject("+m.name+")")
		}
	}

	// ---- history ------------------------------------------------------------
	plainTraffic := 0
	nHist := c.Intn(6, "nhist")
	freshPool := nHist == 0
	for i := 0; i < nHist && !x.dead; i++ {
		kind := c.Pick([]int{3, 3, 3, 2, 3, 3, 2, 2}, "hist")
		if i == nHist-1 && len(members) > 1 && c.Intn(3, "end-with-mid-cycle-removal") == 0 {
			kind = 5 // the history ends in the middle of a cycle with a member leaving: nothing later smooths it over
		}
		switch kind {
		case 7: // two members leave and come back in the other order (a rolling restart)
			if len(members) < 3 {
				continue
			}
			i1 := c.Intn(len(members), "rr1")
			m1 := members[i1]
			members = append(members[:i1:i1], members[i1+1:]...)
			i2 := c.Intn(len(members), "rr2")
			m2 := members[i2]
			members = append(members[:i2:i2], members[i2+1:]...)
			x.Do("restart", func() {
				h.lb.RemoveBackend(m1.name)
				h.lb.RemoveBackend(m2.name)
				for _, m := range []member{m2, m1} {
					if err := h.lb.AddBackend(config.BackendConfig{Name: m.name, Address: "http://" + m.host, Weight: m.weight}); err != nil {
						panic(err)
					}
				}
			}, onErr)
			members = append(members, m2, m1)
			delete(ejectedUntil, m1.name)
			delete(ejectedUntil, m2.name)
			hist = append(hist, "remove("+m1.name+","+m2.name+")+add("+m2.name+","+m1.name+")")
		case 6: // responses that break after their head was forwarded (ReverseProxy aborts the handler)
			k := 1 + c.Intn(3, "aborts")
			for j := 0; j < k && !x.dead; j++ {
				x.Do("req", func() { h.do(reqSpec{client: "192.0.2.1", plan: &reqPlan{mode: "abort"}}) }, onErr)
			}
			x.Fault("backend-abort")
			hist = append(hist, fmt.Sprintf("aborted-responses(%d)", k))
		case 5: // traffic that leaves the running weights mid-cycle, then the heaviest member goes away
			if len(members) <= 1 {
				continue
			}
			tw := 0
			k := 0
			for j, m := range members {
				tw += eff(m.weight)
				if eff(m.weight) > eff(members[k].weight) {
					k = j
				}
			}
			n := 1 + c.Intn(2*tw, "pre-traffic")
			if n > 400 {
				n = 400 // (heavy members make 2*sum(w) thousands: enough is enough for a history step)
			}
			for j := 0; j < n && !x.dead; j++ {
				oneReq("192.0.2.1")
			}
			// (or any other member: whoever leaves in the middle of a cycle, and whatever its
			// running state is at that moment, the remaining ones share by weight from then on)
			which := "heaviest"
			if c.Intn(4, "rm-any-mid-cycle") == 0 {
				k = c.Intn(len(members), "rm-mid")
				which = "any"
			}
			m := members[k]
			x.Do("remove", func() { h.lb.RemoveBackend(m.name) }, onErr)
			net.mu.Lock()
			net.byName[m.name].removed = true
			net.mu.Unlock()
			members = append(members[:k], members[k+1:]...)
			delete(ejectedUntil, m.name)
			hist = append(hist, fmt.Sprintf("traffic(%d)+remove-%s(%s)", n, which, m.name))
		case 0: // add
			if len(members) >= 8 {
				continue
			}
			m := newMember()
			net.add(m.name, m.host, "")
			x.Do("add", func() {
				if err := h.lb.AddBackend(config.BackendConfig{Name: m.name, Address: "http://" + m.host, Weight: m.weight}); err != nil {
					panic(err)
				}
			}, onErr)
			members = append(members, m)
			hist = append(hist, fmt.Sprintf("add(%s,w=%d)", m.name, m.weight))
		case 1: // remove (bias towards the heaviest)
			if len(members) <= 1 {
				continue
			}
			k := c.Intn(len(members), "rm")
			if c.Intn(2, "rm-heaviest") == 1 {
				for j := range members {
					if eff(members[j].weight) > eff(members[k].weight) {
						k = j
					}
				}
			}
			m := members[k]
			x.Do("remove", func() { h.lb.RemoveBackend(m.name) }, onErr)
			net.mu.Lock()
			net.byName[m.name].removed = true
			net.mu.Unlock()
			members = append(members[:k], members[k+1:]...)
			delete(ejectedUntil, m.name)
			hist = append(hist, "remove("+m.name+")")
		case 2: // eject one backend through real failures
			ejectMember(members[c.Intn(len(members), "ej")])
		case 3: // time passes: recover
			x.Advance(W+time.Second, onErr)
			hist = append(hist, "time(>window)")
		case 4: // some traffic
			k := 1 + c.Intn(5, "traffic")
			for j := 0; j < k && !x.dead; j++ {
				oneReq("192.0.2.1")
			}
			hist = append(hist, fmt.Sprintf("traffic(%d)", k))
			plainTraffic += k
		}
	}
	// a history of nothing but plain traffic leaves the strategy where the documented algorithm
	// (nginx's smooth weighted round-robin) is after that many picks from a fresh cycle
	plainHistory := true
	for _, e := range hist {
		if !strings.HasPrefix(e, "traffic(") || strings.Contains(e, "+") {
			plainHistory = false
		}
	}
	// least_connections scans the pool in order: an ejected backend (no connections, so the
	// smallest gauge of all) in the middle of the pool is the interesting position
	if strategy == "least_connections" && len(members) >= 3 && !x.dead && c.Intn(3, "lc-eject-middle") == 0 {
		// (sequential requests all go to the first idle backend: to reach a middle one, requests
		// are held open until every member has one, then released; the target answers 500)
		m := members[1+c.Intn(len(members)-2, "lc-middle")]
		b := net.byName[m.name]
		net.mu.Lock()
		b.mode = "s500"
		net.mu.Unlock()
		x.Fault("backend-s500")
		var held []*reqPlan
		for j := 0; j < len(members)*threshold && !x.dead; j++ {
			p := &reqPlan{hold: true}
			held = append(held, p)
			s.Spawn("lc-hold", func() { h.do(reqSpec{client: "192.0.2.1", plan: p}) })
			x.Settle(onErr)
		}
		net.mu.Lock()
		for _, p := range held {
			p.released = true
		}
		net.mu.Unlock()
		x.RunTasks(onErr)
		net.mu.Lock()
		b.mode = "ok"
		net.mu.Unlock()
		if f := flags(); f != nil && !f[m.name] {
			ejectedUntil[m.name] = x.Now() + W
			hist = append(hist, "eject-middle("+m.name+")")
			x.Probe("lc-middle-ejected")
		}
	}
	if x.dead {
		s.Teardown()
		return
	}

	// ---- measurement window -------------------------------------------------
	now := x.Now()
	var elig []member
	wTotal, wElig := 0, 0
	for _, m := range members {
		wTotal += eff(m.weight)
		if until, ej := ejectedUntil[m.name]; ej && now <= until {
			continue
		}
		elig = append(elig, m)
		wElig += eff(m.weight)
	}
	obsFlags := flags()
	stale := false
	for _, m := range elig {
		if obsFlags != nil && !obsFlags[m.name] {
			stale = true // flagged unhealthy although its window has elapsed (C04's business)
		}
	}
	x.Sample["config"] = fmt.Sprintf("strategy=%s members=%v eligible=%d threshold=%d window=%ds history=%v", strategy, members, len(elig), threshold, window, hist)
	x.Logf("lbdist %s", x.Sample["config"])
	if len(elig) == 0 {
		s.Teardown()
		return
	}
	// the measurement must fit inside every remaining unhealthy window: no time passes in it
	tag := ""
	if stale {
		tag = ",stale-health-flag"
	}
	counts := map[string]int{}
	var seqServed []string
	record := func(be string, status int) bool {
		if be == "" || status == 503 {
			return false
		}
		counts[be]++
		seqServed = append(seqServed, be)
		return true
	}
	isElig := map[string]bool{}
	for _, m := range elig {
		isElig[m.name] = true
	}

	switch strategy {
	case "round_robin":
		n := len(elig)
		k := 1 + c.Intn(4, "k")
		conc := c.Intn(2, "concurrent") == 1
		clean := true
		if conc {
			tasks := 2 + c.Intn(7, "tasks")
			if x.Tier == "thorough" {
				tasks = 2 + c.Intn(63, "tasks64")
			}
			total := n * k
			per := make([]int, tasks)
			for i := 0; i < total; i++ {
				per[i%tasks]++
			}
			var results []simResult
			for t := 0; t < tasks; t++ {
				cnt := per[t]
				s.Spawn("picker", func() {
					for i := 0; i < cnt; i++ {
						r := h.do(reqSpec{client: "192.0.2.1"})
						x.mu.Lock()
						results = append(results, r)
						x.mu.Unlock()
					}
				})
			}
			x.RunTasks(onErr)
			if x.dead {
				break
			}
			for _, r := range results {
				if !record(servedBy(r.id), r.status) {
					clean = false
				}
			}
			x.Probe("rr-concurrent")
			if clean {
				for _, m := range elig {
					if counts[m.name] != k {
						x.Violate("C05", "C05/rr-concurrent-totals"+brace(tag), "round_robin: %d concurrent pickers, %d requests over %d eligible backends: %s served %d, expected exactly %d (counts %v)", tasks, total, n, m.name, counts[m.name], k, counts)
						break
					}
				}
			}
		} else {
			total := n*k + c.Intn(n+1, "extra")
			for i := 0; i < total && !x.dead; i++ {
				be, st := oneReq("192.0.2.1")
				if !record(be, st) {
					clean = false
				}
			}
			if clean && !x.dead {
				// every n consecutive requests hit each eligible backend exactly once
				for off := 0; off+n <= len(seqServed); off++ {
					seen := map[string]int{}
					for _, be := range seqServed[off : off+n] {
						seen[be]++
					}
					for _, m := range elig {
						if seen[m.name] != 1 {
							x.Violate("C05", "C05/rr-window"+brace(tag), "round_robin: window of %d consecutive requests at offset %d served %v; %s appears %d times (eligible %d, history %v)", n, off, seqServed[off:off+n], m.name, seen[m.name], n, hist)
							off = len(seqServed)
							break
						}
					}
				}
			}
		}
		for be := range counts {
			if !isElig[be] {
				x.Violate("C05", "C05/served-by-ineligible"+brace(tag), "backend %s served traffic although it is removed or inside its unhealthy window", be)
			}
		}
	case "weighted_round_robin":
		mult := 2 + c.Intn(3, "mult")
		total := mult * wElig
		// most measurements are short; now and then a long one (thousands of picks: what only shows
		// after many cycles, or within one very long cycle, shows here)
		longOdds := 60
		if x.Tier == "thorough" {
			longOdds = 12
		}
		limit := 160
		if c.Intn(longOdds, "wrr-long-run") == 0 {
			limit = 2600
			if x.S != nil {
				x.S.StepLimit *= 4 // thousands of requests are thousands of scheduling steps: not a livelock
			}
			if total < 1300 {
				total = 1300 + c.Intn(1300, "wrr-long-n")
			}
			x.Probe("wrr-long-run")
		}
		if total > limit {
			total = limit
		}
		clean := true
		// some requests stay in flight during the measurement (slow answers): the rotation is a
		// property of the order of picks, not of who happens to be busy
		withInflight := c.Intn(2, "wrr-inflight") == 1
		var heldPlans []*reqPlan
		for i := 0; i < total && !x.dead; i++ {
			if withInflight && limit == 160 && len(heldPlans) < 6 && c.Intn(4, "hold-this") == 0 {
				p := &reqPlan{hold: true}
				heldPlans = append(heldPlans, p)
				var id int
				s.Spawn("wrr-held", func() {
					r, rid := h.newRequest(reqSpec{client: "192.0.2.1", plan: p})
					x.mu.Lock()
					id = rid
					x.mu.Unlock()
					h.net.ev("inv", rid, "", 0, "")
					rec := newRecorder()
					h.handler.ServeHTTP(rec, r)
					h.net.ev("ret", rid, "", rec.status, "")
				})
				x.Settle(onErr)
				if !record(servedBy(id), 200) {
					clean = false
				}
				continue
			}
			be, st := oneReq("192.0.2.1")
			if !record(be, st) {
				clean = false
			}
		}
		if len(heldPlans) > 0 {
			net.mu.Lock()
			for _, p := range heldPlans {
				p.released = true
			}
			net.mu.Unlock()
			x.RunTasks(onErr)
			x.Probe("wrr-with-inflight")
		}
		if !clean || x.dead {
			break
		}
		for be := range counts {
			if !isElig[be] {
				x.Violate("C05", "C05/served-by-ineligible"+brace(tag), "backend %s served traffic although it is removed or inside its unhealthy window", be)
			}
		}
		if freshPool {
			x.Probe("wrr-fresh")
			// exactly w_i of every sum(w) consecutive requests
			for off := 0; off+wElig <= len(seqServed); off++ {
				seen := map[string]int{}
				for _, be := range seqServed[off : off+wElig] {
					seen[be]++
				}
				for _, m := range elig {
					if seen[m.name] != eff(m.weight) {
						x.Violate("C05", "C05/wrr-fresh-exact", "weighted_round_robin (fresh pool, weights %v): window of %d requests at offset %d gave %s %d requests, expected exactly %d", members, wElig, off, m.name, seen[m.name], eff(m.weight))
						off = len(seqServed)
						break
					}
				}
			}
		}
		// after any history: every window within 2*W_total/W_elig of the proportional share
		bound := 2 * float64(wTotal) / float64(wElig)
		x.Probe("wrr-history")
		worst := 0.0
	outer:
		for a := 0; a < len(seqServed); a++ {
			seen := map[string]int{}
			for bnd := a; bnd < len(seqServed); bnd++ {
				seen[seqServed[bnd]]++
				mlen := bnd - a + 1
				for _, m := range elig {
					dev := math.Abs(float64(seen[m.name]) - float64(mlen)*float64(eff(m.weight))/float64(wElig))
					if dev > worst {
						worst = dev
					}
					if dev > bound+1e-9 {
						if plainHistory && tag == "" && sameAsSmoothWRR(func() (ns []string, ws []int) {
							for _, mm := range members {
								ns, ws = append(ns, mm.name), append(ws, eff(mm.weight))
							}
							return
						}, plainTraffic, seqServed) {
							// Helios picked, request for request, what the documented algorithm picks from a
							// fresh cycle: the excess over the stated bound is the algorithm's own discrepancy
							// for this weight vector (known finding 33), not a fault in its implementation
							x.Violate("C05", "C05/wrr-share-bound{smooth-wrr-itself}", "weighted_round_robin picked exactly what nginx's smooth weighted round-robin picks from a fresh cycle, and that sequence leaves the stated bound: over requests %d..%d backend %s (weight %d) served %d, proportional share %.2f, deviation %.2f > bound %.2f (members %v, eligible weight %d, history %v)", a, bnd, m.name, eff(m.weight), seen[m.name], float64(mlen)*float64(eff(m.weight))/float64(wElig), dev, bound, members, wElig, hist)
							break outer
						}
						x.Violate("C05", "C05/wrr-share-bound"+brace(tag), "weighted_round_robin: over requests %d..%d backend %s (weight %d) served %d, proportional share %.2f, deviation %.2f > bound %.2f (members %v, eligible weight %d, history %v)", a, bnd, m.name, eff(m.weight), seen[m.name], float64(mlen)*float64(eff(m.weight))/float64(wElig), dev, bound, members, wElig, hist)
						break outer
					}
				}
			}
		}
		x.State("wrr", fmt.Sprintf("%.1f", worst/bound*10))
	case "least_connections":
		// hold requests open; each new dispatch must go to a backend with minimal in-flight
		k := 1 + c.Intn(3, "rounds")
		total := k*len(elig) + c.Intn(len(elig)+1, "extra")
		var plans []*reqPlan
		// now and then the measurement starts behind a crowd: a hundred and more requests are already
		// held open on every backend (busy is not a reason to stop comparing)
		if len(elig) >= 2 && len(elig) == len(members) && c.Intn(10, "lc-behind-a-crowd") == 0 {
			crowd := (100+c.Intn(20, "crowd-per-backend"))*len(elig) + c.Intn(len(elig), "crowd-extra")
			s.StepLimit *= 4
			for j := 0; j < crowd && !x.dead; j++ {
				p := &reqPlan{hold: true}
				plans = append(plans, p)
				s.Spawn("lc-crowd", func() { h.do(reqSpec{client: "192.0.2.1", plan: p}) })
			}
			x.Settle(onErr)
			x.Probe("lc-behind-a-crowd")
		}
		switchAt := -1
		if c.Intn(3, "switch-while-held") == 0 {
			switchAt = c.Intn(total+1, "switch-at")
		}
		for i := 0; i < total && !x.dead; i++ {
			if i == switchAt {
				// the operator switches strategies (away and back, or to the same one) while requests are
				// held open: what is in flight stays in flight, whatever strategy looks at it next
				via := []string{"round_robin", "weighted_round_robin", "ip_hash", "least_connections"}[c.Intn(4, "switch-via")]
				x.Do("switch", func() {
					if err := h.lb.SetStrategy(via); err != nil {
						panic(err)
					}
					if err := h.lb.SetStrategy("least_connections"); err != nil {
						panic(err)
					}
				}, onErr)
				x.Probe("strategy-switch-with-requests-in-flight")
			}
			// in-flight per backend before this dispatch (harness tally)
			inflight := map[string]int{}
			net.mu.Lock()
			for _, b := range net.order {
				inflight[b.name] = b.inflight
			}
			net.mu.Unlock()
			p := &reqPlan{hold: true}
			// some requests complete immediately so that counts diverge
			if c.Intn(4, "nohold") == 0 {
				p.hold = false
			}
			plans = append(plans, p)
			// now and then the client is already gone when its request is looked at: it takes no
			// backend's time, and must not leave a trace in anybody's in-flight count
			gone := c.Intn(5, "client-already-gone") == 0
			if gone {
				p.hold = false
				x.Fault("client-disconnect")
			}
			var id int
			s.Spawn("lc", func() {
				r, rid := h.newRequest(reqSpec{client: "192.0.2.1", plan: p, preCancelled: gone})
				x.mu.Lock()
				id = rid
				x.mu.Unlock()
				rec := newRecorder()
				h.net.ev("inv", rid, "", 0, "")
				h.handler.ServeHTTP(rec, r)
				h.net.ev("ret", rid, "", rec.status, "")
			})
			x.Settle(onErr)
			if x.dead {
				break
			}
			be := servedBy(id)
			if be == "" {
				continue // 503: C02's business
			}
			x.Probe("lc-dispatch")
			if !isElig[be] {
				x.Violate("C05", "C05/served-by-ineligible"+brace(tag), "backend %s served traffic although it is removed or inside its unhealthy window", be)
				continue
			}
			min := -1
			for _, m := range elig {
				if min < 0 || inflight[m.name] < min {
					min = inflight[m.name]
				}
			}
			if inflight[be] != min {
				x.Violate("C05", "C05/lc-not-minimal"+brace(tag), "least_connections sent a request to %s with %d in flight while the minimum among eligible backends is %d (in-flight %v, eligible %v)", be, inflight[be], min, inflight, elig)
			}
		}
		net.mu.Lock()
		for _, p := range plans {
			p.released = true
		}
		net.mu.Unlock()
		x.RunTasks(onErr)
	}
	if left := s.Teardown(); left > 0 {
		x.Probe("teardown-left")
	}
}

func brace(tag string) string {
	if tag == "" {
		return ""
	}
	return "{" + tag[1:] + "}"
}

// sameAsSmoothWRR reports whether served is what nginx's smooth weighted round-robin picks, from a
// fresh cycle over members in their configured order, for picks skip+1 .. skip+len(served). It is
// used to tell a discrepancy of the documented algorithm itself from a fault in Helios'
// implementation of it -- never to decide whether a run violates the property.
func sameAsSmoothWRR(pool func() ([]string, []int), skip int, served []string) bool {
	names, ws := pool()
	cw := make([]int, len(ws))
	total := 0
	for _, w := range ws {
		total += w
	}
	for t := 0; t < skip+len(served); t++ {
		best := -1
		for i, w := range ws {
			cw[i] += w
			if best < 0 || cw[i] > cw[best] {
				best = i
			}
		}
		cw[best] -= total
		if t >= skip && names[best] != served[t-skip] {
			return false
		}
	}
	return true
}
