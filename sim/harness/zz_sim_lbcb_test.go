package main

// Scenario "lbcb": the circuit breaker as wired in the balancer (system-level
// part of C07, wired part of C08). Configurations are drawn from what
// config.Validate accepts. Health checks are off and scripted failures use
// 500 / 502-by-unreachable / aborted bodies, so a 503 without backend contact
// can only be the breaker's rejection and a 429 its half-open limit.

import (
	"strings"
	"fmt"
	"time"

	"github.com/0xReLogic/Helios/internal/config"
	"vsim/simrt"
)

func init() {
	register(&Scenario{Name: "lbcb", Props: []string{"C07", "C08"}, Kind: "micro", Run: runLBCB})
}

func runLBCB(x *X) {
	c := x.C
	strategy := strategies[c.Intn(5, "strategy")]
	nb := 1 + c.Intn(3, "nbackends")
	cb := config.CircuitBreakerConfig{Enabled: true,
		FailureThreshold: 1 + c.Intn(3, "ft"), SuccessThreshold: 1 + c.Intn(3, "st"), MaxRequests: c.Intn(4, "mr"),
		IntervalSeconds: 1 + c.Intn(10, "interval"), TimeoutSeconds: 1 + c.Intn(10, "timeout")}
	interval := time.Duration(cb.IntervalSeconds) * time.Second
	timeout := time.Duration(cb.TimeoutSeconds) * time.Second
	s := x.StartMicro()
	net := newStubNet(x)
	var bcs []config.BackendConfig
	for i := 0; i < nb; i++ {
		net.add(fmt.Sprintf("b%d", i), x.BackendHost(7, i+1), "")
		bcs = append(bcs, config.BackendConfig{Name: fmt.Sprintf("b%d", i), Address: "http://" + x.BackendHost(7, i+1), Weight: 1})
	}
	// only configurations the validator accepts
	probe := &config.Config{Backends: bcs, CircuitBreaker: cb}
	probe.Server.Port = 8080
	probe.LoadBalancer.Strategy = strategy
	if err := probe.Validate(); err != nil {
		x.Probe("config-rejected")
		x.Logf("config rejected by validation: %v", err)
		x.Sample["config"] = "rejected: " + err.Error()
		return
	}
	x.Sample["config"] = fmt.Sprintf("strategy=%s backends=%d breaker=%+v", strategy, nb, cb)
	x.Logf("lbcb %s", x.Sample["config"])
	blocked := false
	onErr := func(e *simrt.SchedError) {
		blocked = true
		x.Violate("C08", "C08/blocked{"+e.Kind+","+siteKey(e)+"}", "request processing blocked after a breaker state change: %s", e.Error())
		x.Violate("C03", "C03/"+e.Kind+"{breaker-state-change}", "%s", e.Error())
		x.Violate("C12", "C12/"+e.Kind+"{"+siteKey(e)+"}", "%s", e.Error())
		x.Blocked(e, "lbcb")
	}
	var h *lbHarness
	// in half of the runs the balancer sits behind Helios' whole handler chain, whose end-to-end
	// deadline (server.timeouts.handler, 1 s here) ends requests a backend stalls on: a failed
	// proxied request like any other
	fullChain := c.Intn(2, "full-handler-chain") == 1
	x.Do("setup", func() {
		h, _ = newLBHarness(x, net, lbOpts{strategy: strategy, backends: bcs, breaker: &cb, fullChain: fullChain, handlerTimeout: 1})
	}, onErr)
	if h == nil {
		s.Teardown()
		return
	}
	dispatched := func(id int) bool { return net.dispatchedTo(id) != "" }
	type fail struct {
		at    time.Duration
		class string
	}
	// Harness-side model of what the statement allows. mode:
	//   closed   - known closed; failures accumulate in `fails`
	//   open     - opened at/after openedAfter; until openedAfter+timeout every request must be
	//              rejected with 503 and no backend contact
	//   probing  - the timeout has elapsed: half-open trials; 429 (trial limit) is legal, a
	//              failed trial must reopen, success_threshold successes close
	mode := "closed"
	var fails []fail
	var openedAfter time.Duration
	succ := 0
	var steps []string
	classes := []string{"ok", "s500", "unreach", "abort", "ok", "s404"} // (a 4xx answer is the client's problem: for the breaker the backend worked)
	doReq := func(class string) (simResult, bool) {
		var r simResult
		// now and then the backend sends 103 Early Hints before its (good or bad) final answer:
		// the answer that counts is the final one
		var interim []int
		if class != "unreach" && c.Intn(5, "early-hints") == 0 {
			interim = []int{103}
			x.Probe("interim-before-final-status")
		}
		plan := &reqPlan{mode: class, interim: interim}
		if class == "timeout" {
			plan = &reqPlan{mode: "ok", delay: 5 * time.Second}
		}
		ok := x.Do("req", func() { r = h.do(reqSpec{client: "192.0.2.1", plan: plan}) }, onErr)
		return r, ok
	}
	failClasses := func() string {
		cl := ""
		for _, k := range []string{"s500", "unreach", "abort"} {
			for _, f := range fails {
				if f.class == k {
					cl += k + "+"
					break
				}
			}
		}
		if cl == "" {
			return "-"
		}
		return cl[:len(cl)-1]
	}
	// mustBeOpen issues one more request right away and demands a breaker rejection
	mustBeOpen := func(why string) bool {
		r2, ok2 := doReq("ok")
		if !ok2 {
			return false
		}
		if dispatched(r2.id) || r2.status != 503 {
			x.Violate("C07", "C07/failures-did-not-open{"+why+"}", "%s did not open the circuit: the next request got %d and contacted a backend=%v (failure_threshold %d, interval %v)", why, r2.status, dispatched(r2.id), cb.FailureThreshold, interval)
			return true
		}
		mode, openedAfter = "open", x.Now()
		x.Probe("circuit-opened")
		return true
	}
	nSteps := 3 + c.Intn(10, "nsteps")
	for i := 0; i < nSteps && !x.dead; i++ {
		if c.Intn(4, "time?") == 0 {
			var d time.Duration
			switch c.Intn(5, "dt") {
			case 0:
				d = interval / 2
			case 1:
				d = interval + time.Millisecond
			case 2:
				d = timeout / 2
			case 3:
				d = timeout + time.Millisecond
			case 4:
				d = time.Second
			}
			steps = append(steps, fmt.Sprintf("time(%v)", d))
			x.Advance(d, onErr)
			continue
		}
		class := classes[c.Intn(len(classes), "class")]
		if fullChain && c.Intn(6, "stalled-backend") == 0 {
			class = "timeout" // the backend takes the request and does not answer before the handler deadline
			// (not where the second it takes would straddle the interval rule: admitted within
			// `interval` of the last failure, failing after it -- whether those two failures
			// "accumulate" is then a matter of reading, and this model does not take sides)
			if n := len(fails); n > 0 && x.Now()-fails[n-1].at <= interval && x.Now()+time.Second-fails[n-1].at > interval {
				class = "s500"
			}
		}
		// a trial the client walks away from while the backend has not answered: whatever the
		// breaker makes of it (a failure, or nothing), it is not a success
		if (mode == "probing" || (mode == "open" && x.Now() > openedAfter+timeout)) && c.Intn(4, "cancelled-trial") == 0 {
			steps = append(steps, "cancelled-trial")
			x.Fault("client-cancel")
			if mode == "open" {
				mode, succ = "probing", 0
			}
			var r simResult
			if !x.Do("req", func() {
				r = h.do(reqSpec{client: "192.0.2.1", plan: &reqPlan{mode: "ok", delay: 5 * time.Second}, cancelAfter: 200 * time.Millisecond})
			}, onErr) {
				break
			}
			if !dispatched(r.id) {
				continue // 429 / 503: not a trial
			}
			r2, ok2 := doReq("s500")
			if !ok2 {
				break
			}
			switch {
			case dispatched(r2.id):
				fails = nil
				x.Probe("trial-failed")
				if !mustBeOpen("a failed half-open trial after a cancelled one") {
					break
				}
			case r2.status == 503:
				mode, openedAfter, fails = "open", x.Now(), nil
			}
			continue
		}
		steps = append(steps, class)
		if class != "ok" && class != "s404" {
			x.Fault("backend-" + class)
		}
		if class == "timeout" {
			x.Probe("handler-deadline-ends-a-stalled-request")
		}
		invAt := x.Now()
		if mode == "open" && invAt > openedAfter+timeout {
			mode, succ = "probing", 0
		}
		r, ok := doReq(class)
		if !ok {
			break
		}
		contacted := dispatched(r.id)
		failed := contacted && (class == "s500" || class == "unreach" || class == "abort" || class == "timeout")
		switch mode {
		case "open":
			if invAt < openedAfter+timeout { // strictly inside: the boundary instant is not judged
				if contacted {
					x.Violate("C07", "C07/backend-contacted-while-open", "request at t=%v reached a backend although the breaker opened at t=%v (timeout %v)", invAt, openedAfter, timeout)
				} else if r.status != 503 {
					x.Violate("C07", "C07/open-wrong-status", "request at t=%v while open got %d instead of 503", invAt, r.status)
				}
				x.Probe("rejected-while-open")
			} else if contacted {
				mode, succ = "probing", 0
				if failed {
					if !mustBeOpen("a failed trial at the timeout boundary") {
						break
					}
				} else {
					succ++
				}
			}
		case "probing":
			switch {
			case !contacted:
				// 429: trial limit reached; 503: another trial failed meanwhile (not possible here) — not judged
			case failed:
				x.Probe("trial-failed")
				fails = nil
				if !mustBeOpen("a failed half-open trial") {
					break
				}
			default:
				succ++
				if succ >= cb.SuccessThreshold {
					mode, fails = "closed", nil
					x.Probe("closed-again")
				}
			}
		case "closed":
			if !contacted {
				x.Violate("C07", "C07/opened-below-threshold{system}", "request at t=%v was rejected (%d) after only %d failed proxied requests (failure_threshold %d)", invAt, r.status, len(fails), cb.FailureThreshold)
				break
			}
			if failed {
				if n := len(fails); n > 0 && x.Now()-fails[n-1].at > interval {
					fails = nil // a gap longer than interval may reset the count
				}
				fails = append(fails, fail{x.Now(), class})
				if len(fails) >= cb.FailureThreshold {
					why := fmt.Sprintf("%d failed proxied requests (%s) within the interval", len(fails), failClasses())
					_ = why
					cl := failClasses()
					fails = nil
					if !mustBeOpen(cl) {
						break
					}
				}
			}
		}
	}
	x.Sample["steps"] = steps

	// ---- a second balancer: "no healthy backend" is Helios' own answer, not a failed proxied request ----
	// One backend, passive health checks with threshold 1: a single failed response ejects it, and
	// for the length of the window Helios answers 503 itself without contacting anybody. Those
	// answers are not failures of a proxied request: they must not trip the breaker.
	if !x.dead && x.Want("C07") && cb.FailureThreshold >= 2 && c.Intn(3, "no-healthy-backend-phase") == 0 {
		net2 := newStubNet(x)
		net2.add("solo", x.BackendHost(7, 8), "")
		var h2 *lbHarness
		x.Do("setup2", func() {
			h2, _ = newLBHarness(x, net2, lbOpts{strategy: strategy, backends: []config.BackendConfig{{Name: "solo", Address: "http://" + x.BackendHost(7, 8), Weight: 1}},
				breaker: &cb, passive: true, threshold: 1, window: 1})
		}, onErr)
		if h2 != nil {
			var r simResult
			x.Do("req", func() { r = h2.do(reqSpec{client: "192.0.2.9", plan: &reqPlan{mode: "s500"}}) }, onErr)
			rejected := 0
			for k := 0; k < cb.FailureThreshold+1 && !x.dead; k++ {
				x.Do("req", func() { r = h2.do(reqSpec{client: "192.0.2.9"}) }, onErr)
				if r.status == 503 && strings.Contains(r.body, "No healthy backend") {
					rejected++
				}
			}
			x.Advance(1100*time.Millisecond, onErr)
			x.Do("req", func() { r = h2.do(reqSpec{client: "192.0.2.9"}) }, onErr)
			if !x.dead && rejected > 0 && r.status != 200 && interval > 1100*time.Millisecond {
				x.Violate("C07", "C07/opened-by-no-healthy-backend-answers", "one failed proxied request (failure_threshold %d) followed by %d answers 'no healthy backend' while the only backend was ejected: once the ejection was over the request got %d %q instead of reaching the backend", cb.FailureThreshold, rejected, r.status, strings.TrimSpace(r.body))
			}
			x.Probe("no-healthy-backend-is-not-a-breaker-failure")
			x.Do("stop2", func() { h2.lb.Stop() }, onErr)
		}
	}

	// ---- a third balancer: a failure that also ejects its backend is still a failure ----------------
	// One backend, passive threshold 1, window 1 s: every failed response ejects the backend for a
	// second. failure_threshold such responses (each one after the previous window has run out, all
	// within the breaker's counting interval) must open the breaker like any others: the next request
	// finds a backend that is eligible again and must still be refused without contacting it.
	if ft := cb.FailureThreshold; !x.dead && x.Want("C07") && ft >= 1 && interval > time.Duration(ft)*1200*time.Millisecond+time.Second && timeout > 1500*time.Millisecond && c.Intn(3, "ejecting-failures-phase") == 0 {
		net3 := newStubNet(x)
		net3.add("solo3", x.BackendHost(7, 9), "")
		var h3 *lbHarness
		x.Do("setup3", func() {
			h3, _ = newLBHarness(x, net3, lbOpts{strategy: strategy, backends: []config.BackendConfig{{Name: "solo3", Address: "http://" + x.BackendHost(7, 9), Weight: 1}},
				breaker: &cb, passive: true, threshold: 1, window: 1})
		}, onErr)
		if h3 != nil {
			var r simResult
			reached := 0
			for k := 0; k < ft && !x.dead; k++ {
				x.Do("req", func() { r = h3.do(reqSpec{client: "192.0.2.9", plan: &reqPlan{mode: []string{"s500", "s502", "abort"}[k%3]}}) }, onErr)
				if net3.dispatchedTo(r.id) != "" {
					reached++
				}
				x.Advance(1100*time.Millisecond, onErr)
			}
			x.Do("req", func() { r = h3.do(reqSpec{client: "192.0.2.9"}) }, onErr)
			if !x.dead && reached == ft && net3.dispatchedTo(r.id) != "" {
				x.Violate("C07", "C07/failures-did-not-open{failures-that-eject-their-backend}", "%d failed proxied requests within %v (failure_threshold %d, counting interval %v), each of which also ejected the only backend for a second (passive threshold 1): the breaker did not open, the next request was sent to the backend (status %d)", ft, time.Duration(ft)*1100*time.Millisecond, ft, interval, r.status)
			}
			x.Probe("ejecting-failures-open-the-breaker")
			x.Do("stop3", func() { h3.lb.Stop() }, onErr)
		}
	}

	// ---- biased tail: clients that walk away ---------------------------------
	// A slow request admitted while the breaker is closed is still waiting for its backend when
	// the breaker trips and reaches half-open; the client of a half-open trial gives up before the
	// backend answers, and so does the slow request's client. Neither says anything good about the
	// backend, and neither may cost the breaker its way back (recovery script below).
	if !x.dead && x.Want("C08") && c.Intn(4, "abandoned-straggler-and-trial") == 0 {
		x.Advance(timeout+time.Millisecond, onErr)
		for k := 0; k < cb.SuccessThreshold+2 && !x.dead; k++ {
			doReq("ok") // (towards closed, whatever the state was)
		}
		s.Spawn("straggler", func() {
			h.do(reqSpec{client: "192.0.2.7", plan: &reqPlan{mode: "ok", delay: 3*timeout + 5*time.Second}, cancelAfter: timeout + 1500*time.Millisecond})
		})
		x.Settle(onErr)
		for k := 0; k < cb.FailureThreshold && !x.dead; k++ {
			doReq("s500")
		}
		x.Advance(timeout+time.Millisecond, onErr)
		x.Do("req", func() {
			h.do(reqSpec{client: "192.0.2.8", plan: &reqPlan{mode: "ok", delay: 5 * time.Second}, cancelAfter: 200 * time.Millisecond})
		}, onErr)
		x.Advance(2*time.Second, onErr)
		x.RunTasks(onErr)
		x.Fault("client-cancel")
		x.Probe("abandoned-straggler-and-trial")
	}

	// ---- C08 (wired): recovery script --------------------------------------
	if !x.dead && x.Want("C08") && c.Intn(3, "recovery-with-overlapping-traffic") == 0 {
		// the same claim with overlapping clients: every `timeout` a group of requests arrives
		// together and every one that reaches the backend is answered 200 (after a little while)
		mr := cb.MaxRequests
		if mr < 1 {
			mr = 1
		}
		bound := cb.SuccessThreshold + mr + 1
		group := 2 + c.Intn(3, "overlap-group")
		delay := []time.Duration{time.Millisecond, 30 * time.Millisecond, 400 * time.Millisecond}[c.Intn(3, "overlap-delay")]
		var sts []int
		served := 0
		for round := 0; round < bound+2 && !x.dead; round++ {
			x.Advance(timeout+time.Millisecond, onErr)
			for k := 0; k < group; k++ {
				cl := fmt.Sprintf("192.0.2.%d", 10+k)
				s.Spawn("overlap", func() {
					r := h.do(reqSpec{client: cl, plan: &reqPlan{mode: "ok", delay: delay}})
					x.mu.Lock()
					sts = append(sts, r.status)
					if r.status == 200 {
						served++
					}
					x.mu.Unlock()
				})
			}
			if !x.RunTasks(onErr) {
				break
			}
		}
		allOK := true
		for k := 0; k < 3 && !x.dead; k++ {
			r, ok := doReq("ok")
			if !ok {
				break
			}
			sts = append(sts, r.status)
			if r.status != 200 {
				allOK = false
			}
		}
		if !x.dead {
			if !allOK {
				x.Violate("C08", "C08/no-recovery{overlapping-traffic,accepted-config}", "with an accepted configuration (%+v) the breaker still refuses traffic after %d rounds of %d overlapping requests one timeout apart (%d served): statuses %v", cb, bound+2, group, served, sts)
			} else {
				x.Probe("recovered-under-overlapping-traffic")
			}
		}
	} else if !x.dead && x.Want("C08") {
		x.Advance(timeout+time.Millisecond, onErr)
		mr := cb.MaxRequests
		if mr < 1 {
			mr = 1
		}
		bound := cb.SuccessThreshold + mr + 1
		var sts []int
		for k := 0; k < bound && !x.dead; k++ {
			r, ok := doReq("ok")
			if !ok {
				break
			}
			sts = append(sts, r.status)
		}
		// now it must be closed: the next few requests are all served
		allOK := true
		for k := 0; k < 3 && !x.dead; k++ {
			r, ok := doReq("ok")
			if !ok {
				break
			}
			sts = append(sts, r.status)
			if r.status != 200 {
				allOK = false
			}
		}
		if !x.dead {
			if !allOK {
				rel := "st<=mr"
				if cb.SuccessThreshold > mr {
					rel = "success_threshold>max_requests"
				}
				x.Violate("C08", "C08/no-recovery{"+rel+",accepted-config}", "with an accepted configuration (%+v) the breaker still refuses traffic after timeout + %d successful requests: statuses %v", cb, bound, sts)
			} else {
				x.Probe("recovered")
			}
		}
	}
	_ = blocked
	if left := s.Teardown(); left > 0 {
		x.Probe("teardown-left")
	}
}

func siteKey(e *simrt.SchedError) string {
	if len(e.Sites) == 0 {
		return "-"
	}
	k := ""
	seen := map[string]bool{}
	for _, s := range e.Sites {
		if !seen[s] {
			seen[s] = true
			if k != "" {
				k += "+"
			}
			k += s
		}
	}
	return k
}
