package main

// Scenario "ids": request-ID / trace-ID middleware under concurrency at one
// frozen virtual instant (micro part of C16): generated identifiers are
// pairwise distinct, client-supplied ones are passed on unchanged, the handler
// sees what the client gets, disabled features neither add nor alter headers.

import (
	"fmt"
	"net/http"
	"strings"

	"github.com/0xReLogic/Helios/internal/config"
	"github.com/0xReLogic/Helios/internal/logging"
)

func init() {
	register(&Scenario{Name: "ids", Props: []string{"C16"}, Kind: "micro", Run: runIDs})
}

func runIDs(x *X) {
	c := x.C
	cfg := config.LoggingConfig{Level: "fatal"}
	cfg.RequestID.Enabled = c.Intn(4, "rid") != 0
	cfg.Trace.Enabled = c.Intn(4, "tid") != 0
	if c.Intn(2, "custom") == 1 {
		cfg.RequestID.Header = []string{"X-Correlation-Id", "x-req", "Request-Id"}[c.Intn(3, "rh")]
		cfg.Trace.Header = []string{"Traceparent-Lite", "X-B3-TraceId", "x-trace"}[c.Intn(3, "th")]
	}
	// one header name for both identifiers (an operator's choice the configuration accepts): whichever
	// feature is enabled must still do its job on that header
	shared := c.Intn(6, "shared-header-name") == 0
	if shared {
		nm := []string{"X-Correlation-Id", "X-Request-ID", "x-request-id"}[c.Intn(3, "shared-name")]
		cfg.RequestID.Header = nm
		cfg.Trace.Header = []string{nm, strings.ToUpper(nm)}[c.Intn(2, "shared-case")]
	}
	rh, th := logging.RequestHeaderName(cfg), logging.TraceHeaderName(cfg)
	tasks := 1 + c.Intn(8, "tasks")
	per := 5 + c.Intn(60, "per")
	if x.Tier == "thorough" {
		tasks = 8 + c.Intn(57, "tasks64")
		per = 200 + c.Intn(1400, "per-th")
	}
	// the property quantifies over 10^5 concurrent generations: now and then a run does that many
	// (a generator whose distinguishing part is a short counter only repeats beyond its period)
	burstOdds := 100
	if x.Tier == "thorough" {
		burstOdds = 25
	}
	if c.Intn(burstOdds, "burst") == 0 {
		tasks, per = 4, 25000
		x.Probe("ids-burst-100k")
	}
	x.Sample["config"] = fmt.Sprintf("request_id=%v(%s) trace=%v(%s) tasks=%d x %d requests at one virtual instant", cfg.RequestID.Enabled, rh, cfg.Trace.Enabled, th, tasks, per)
	x.Logf("ids %s", x.Sample["config"])
	s := x.StartMicro()
	type seen struct {
		req, trace string
		lines      int // 0/1: one header line; 2: the value followed by a second, different line; 3: an empty line first
	}
	var backendSaw seen
	_ = backendSaw
	supplied := []string{ // (leading/trailing blanks cannot reach a handler: net/http's header parser trims them)
		"", "abc-123", "in  ner", strings.Repeat("L", 300), "ünï-cödé", "a b;c=d", "0",
		// bytes that are legal in a field value and not "printable text": Latin-1, invalid UTF-8, an inner tab,
		// no-break and zero-width spaces
		"caf\xe9-42", "\xff\xfe\x80", "tab\tinside", "nb\u00a0sp", "zw\u200bsp",
		// white space by Unicode's book that is not white space by HTTP's (the header parser leaves it alone):
		// a trailing no-break space, a leading em space, a trailing NEL
		"trail-nbsp\u00a0", "\u2003lead-emsp", "trail-nel\u0085"}
	type result struct {
		inReq, inTrace   string // what the client sent
		hReq, hTrace     string // what the inner handler saw on the request
		outReq, outTrace string // what the client got
		hadReq, hadTrace bool
		emptyFirst       bool // the client's header came as an empty line followed by a value
	}
	var results []result
	generated := map[string]int{}
	for t := 0; t < tasks; t++ {
		var specs []seen
		for i := 0; i < per; i++ {
			sp := seen{}
			if c.Intn(5, "supply") == 0 {
				sp.req = supplied[c.Intn(len(supplied), "sreq")]
				sp.trace = supplied[c.Intn(len(supplied), "strace")]
				// a proxy in front may have added its own line: the header arrives on two lines
				sp.lines = []int{1, 1, 1, 2, 3}[c.Intn(5, "id-lines")]
				if shared {
					sp.req = sp.trace // one header, one value
				}
			}
			specs = append(specs, sp)
		}
		s.Spawn("client", func() {
			for _, sp := range specs {
				var res result
				inner := http.HandlerFunc(func(w http.ResponseWriter, r *http.Request) {
					res.hReq, res.hTrace = r.Header.Get(rh), r.Header.Get(th)
					w.WriteHeader(204)
				})
				hnd := logging.RequestContextMiddleware(cfg)(inner)
				r, _ := http.NewRequest("GET", "http://helios.test/", nil)
				for _, hv := range []struct{ name, val string }{{rh, sp.req}, {th, sp.trace}} {
					if hv.val == "" {
						continue
					}
					key := http.CanonicalHeaderKey(hv.name)
					switch sp.lines {
					case 2:
						r.Header[key] = []string{hv.val, "second-line-" + hv.val}
					case 3:
						r.Header[key] = []string{"", hv.val}
					default:
						r.Header.Set(hv.name, hv.val)
					}
				}
				res.inReq, res.inTrace = sp.req, sp.trace
				res.emptyFirst = sp.lines == 3
				rec := newRecorder()
				hnd.ServeHTTP(rec, r)
				res.outReq, res.outTrace = rec.sentHdr.Get(rh), rec.sentHdr.Get(th)
				_, res.hadReq = rec.sentHdr[http.CanonicalHeaderKey(rh)]
				_, res.hadTrace = rec.sentHdr[http.CanonicalHeaderKey(th)]
				x.mu.Lock()
				results = append(results, res)
				x.mu.Unlock()
			}
		})
	}
	x.RunTasks(nil)
	check := func(kind string, enabled bool, in, h, out string, had bool, emptyFirst bool) {
		if emptyFirst && in != "" {
			// an empty line first: whether that counts as "supplied" is Helios' call (it generates a
			// fresh one); what must hold either way: the backend sees what the client gets
			if enabled {
				if !had || out == "" {
					x.Violate("C16", "C16/missing-on-response{"+kind+"}", "%s enabled but the response carries no identifier", kind)
				} else if h != out {
					x.Violate("C16", "C16/backend-client-mismatch{"+kind+",two-lines}", "the client sent the %s header as an empty line followed by %q: the handler saw %q but the client got %q", kind, in, h, out)
				}
			}
			return
		}
		if !enabled {
			if had && in == "" || h != in {
				x.Violate("C16", "C16/disabled-but-touched{"+kind+"}", "%s propagation is disabled but the header was added or altered (client sent %q, handler saw %q, response has header=%v)", kind, in, h, had)
			}
			return
		}
		if !had || out == "" {
			x.Violate("C16", "C16/missing-on-response{"+kind+"}", "%s enabled but the response carries no identifier", kind)
			return
		}
		if h != out {
			x.Violate("C16", "C16/backend-client-mismatch{"+kind+"}", "handler saw %s %q but the client got %q", kind, h, out)
		}
		if strings.TrimSpace(in) != "" {
			if out != in {
				x.Violate("C16", "C16/client-id-altered{"+kind+"}", "client supplied %s %q and got back %q", kind, in, out)
			}
		} else {
			generated[kind+":"+out]++
		}
	}
	for _, r := range results {
		if shared && cfg.RequestID.Enabled != cfg.Trace.Enabled {
			// the header belongs to the enabled feature
			if cfg.RequestID.Enabled {
				check("request-id", true, r.inReq, r.hReq, r.outReq, r.hadReq, r.emptyFirst)
			} else {
				check("trace-id", true, r.inTrace, r.hTrace, r.outTrace, r.hadTrace, r.emptyFirst)
			}
			continue
		}
		check("request-id", cfg.RequestID.Enabled, r.inReq, r.hReq, r.outReq, r.hadReq, r.emptyFirst)
		check("trace-id", cfg.Trace.Enabled, r.inTrace, r.hTrace, r.outTrace, r.hadTrace, r.emptyFirst)
	}
	for id, n := range generated {
		if n > 1 {
			x.Violate("C16", "C16/duplicate-generated-id", "identifier generated %d times among %d requests at one virtual instant (%s...)", n, len(results), id[:strings.Index(id, ":")])
			break
		}
	}
	if len(generated) > 0 {
		x.Probe("ids-generated")
	}
	x.Logf("ids results=%d generated=%d", len(results), len(generated))
	s.Teardown()
}
