package main

// Scenario "lbhealth": failover (C02) and the health state machine (C04).
//
// The real balancer with 1-6 scripted backends. The driver (root goroutine)
// draws a sequence of steps — single request, burst of concurrent requests,
// change a backend's response/probe behaviour, let virtual time pass — and
// after every step reads the health flags through the public API at a
// quiescent point. Ejections happen only through real failures (5xx /
// unreachable responses, failed probes), never by poking internals. Breaker
// and limiter are off and scripted failures never use 503, so a 503 can only
// be Helios' own "no healthy backend" answer.

import (
	"fmt"
	"time"

	"github.com/0xReLogic/Helios/internal/config"
	"vsim/simrt"
)

func init() {
	register(&Scenario{Name: "lbhealth", Props: []string{"C02", "C04"}, Kind: "micro", Run: runLBHealth})
}

type healthObs struct {
	seq     uint64
	at      time.Duration
	admin   map[string]bool
	metrics map[string]bool
}

func runLBHealth(x *X) {
	c := x.C
	strategy := strategies[c.Intn(5, "strategy")]
	nb := 1 + c.Intn(5, "nbackends")
	passive := c.Intn(5, "passive") != 4 // mostly on
	threshold := 1 + c.Intn(4, "threshold")
	window := 1 + c.Intn(20, "window")
	active := c.Intn(3, "active") == 2
	interval := 2 + c.Intn(8, "interval")
	ptimeout := 1 + c.Intn(interval-1, "ptimeout")
	if c.Intn(5, "probe-timeout-not-below-interval") == 0 {
		// a probe may still be running when the next round is due (the validator accepts it)
		interval = 1 + c.Intn(3, "short-interval")
		ptimeout = interval + c.Intn(3, "timeout-over-interval")
	}
	if !passive && !active {
		passive = true
	}
	if !passive && c.Intn(2, "active-only-zero-window") == 0 {
		// active checks only, and the (passive) unhealthy_timeout left at 0 -- a configuration the
		// validator accepts: a failed probe then ejects for no time at all, nobody is ever inside a
		// window, nobody may ever be told "no healthy backend"
		window = 0
		x.Probe("zero-unhealthy-window")
	}
	W := time.Duration(window) * time.Second
	I := time.Duration(interval) * time.Second
	PT := time.Duration(ptimeout) * time.Second

	var bcs []config.BackendConfig
	for i := 0; i < nb; i++ {
		bcs = append(bcs, config.BackendConfig{Name: fmt.Sprintf("b%d", i), Address: "http://" + x.BackendHost(1, i+1), Weight: []int{1, 0, 2, 3, 6, 10, 1, 8}[c.Intn(8, "weight")]})
	}
	nSteps := 3 + c.Intn(10, "nsteps")
	if x.Tier == "thorough" {
		nSteps += c.Intn(12, "nsteps2")
	}
	x.Sample["config"] = fmt.Sprintf("strategy=%s backends=%d passive=%v threshold=%d window=%ds active=%v interval=%ds probe_timeout=%ds", strategy, nb, passive, threshold, window, active, interval, ptimeout)
	x.Logf("lbhealth %s", x.Sample["config"])

	s := x.StartMicro()
	net := newStubNet(x)
	if c.Intn(4, "backends-send-early-hints") == 0 {
		net.interimAll = []int{103} // the final status is what counts, for health and for the counters
		x.Probe("interim-before-final-status")
	}
	for i, bc := range bcs {
		net.add(bc.Name, x.BackendHost(1, i+1), "")
	}
	onErr := func(e *simrt.SchedError) {
		x.Violate("C03", "C03/"+e.Kind+"{lbhealth}", "%s", e.Error())
		x.Violate("C12", "C12/"+e.Kind+"{lbhealth}", "%s", e.Error())
		x.Blocked(e, "lbhealth")
	}
	var h *lbHarness
	var setupErr error
	x.Do("setup", func() {
		h, setupErr = newLBHarness(x, net, lbOpts{strategy: strategy, backends: bcs, passive: passive, threshold: threshold, window: window, active: active, interval: interval, timeout: ptimeout})
	}, onErr)
	if setupErr != nil || h == nil {
		if !x.dead {
			panic(fmt.Sprint("setup failed: ", setupErr))
		}
		s.Teardown()
		return
	}

	// ---- model state ---------------------------------------------------------
	type win struct {
		lo, hi time.Duration // the window ends somewhere in [lo, hi]
		known  bool
		obsSeq uint64 // sequence number of the observation that detected it
	}
	wins := map[string]*win{}
	cumFail := map[string]int{}    // failed responses since the last detected ejection
	consecFail := map[string]int{} // failed responses in a row (sequential steps only)
	uncertain := map[string]bool{} // a burst mixed results for this backend: consecutive count unknown
	lastFailAt := map[string]time.Duration{} // when the backend last answered a failed response
	everFailed := map[string]bool{}
	var obs []healthObs
	evPos := 0
	clients := []string{"192.0.2.1", "192.0.2.2", "198.51.100.7", "203.0.113.9", "2001:db8::1", "10.9.8.7"}
	var manyClients []string
	for j := 0; j < 40; j++ {
		manyClients = append(manyClients, fmt.Sprintf("10.%d.%d.%d", 1+j%7, (j*37)%251, 1+(j*11)%250))
	}
	var steps []string
	added := false
	addedWeight := 0

	observe := func() *healthObs {
		if !x.Settle(onErr) {
			return nil
		}
		o := healthObs{admin: map[string]bool{}, metrics: map[string]bool{}}
		if !x.Do("observe", func() {
			o.admin = h.healthSnapshot()
			m := h.lb.GetMetricsCollector().GetMetrics()
			for name, bm := range m.BackendMetrics {
				o.metrics[name] = bm.IsHealthy
			}
		}, onErr) {
			return nil
		}
		o.seq, o.at = x.Seq(), x.Now()
		obs = append(obs, o)
		x.Logf("obs %d t=%v admin=%v metrics=%v", o.seq, o.at, fmtFlags(o.admin), fmtFlags(o.metrics))
		return &obs[len(obs)-1]
	}

	type pendingProbe struct {
		backend string
		doneAt  time.Duration
		fail    bool
		seq     uint64
	}
	var pprobes []pendingProbe

	// process the events of the interval (prev observation, this observation]
	process := func(prev, cur *healthObs) {
		evs := net.snapshot()
		interval := evs[evPos:]
		evPos = len(evs)
		touched := map[string]bool{}
		failedProbe := map[string]bool{}      // a failed probe completed in this interval (may eject)
		failedProbeFresh := map[string]bool{} // ... and its window cannot have elapsed yet (must be ejected now)
		failedProbeAt := map[string]time.Duration{}
		reqs := map[int]*struct {
			inv, disp, ans, ret *lbEvent
		}{}
		var order []int
		for i := range interval {
			e := &interval[i]
			if e.kind == "probe" {
				touched[e.backend] = true
				pp := pendingProbe{backend: e.backend, seq: e.seq, doneAt: e.at}
				switch e.note {
				case "status", "status4xx", "conn":
					pp.fail = true
				case "slow":
					if slow := time.Duration(e.status) * time.Millisecond; slow > PT {
						pp.fail = true
						pp.doneAt = e.at + PT
					} else {
						pp.doneAt = e.at + slow
					}
				}
				pprobes = append(pprobes, pp)
				continue
			}
			r := reqs[e.req]
			if r == nil {
				r = &struct{ inv, disp, ans, ret *lbEvent }{}
				reqs[e.req] = r
				order = append(order, e.req)
			}
			switch e.kind {
			case "inv":
				r.inv = e
			case "dispatch":
				r.disp = e
				touched[e.backend] = true
			case "answered":
				r.ans = e
			case "ret":
				r.ret = e
			}
		}
		// ---- C02(i) / C04: no dispatch into a known window ------------------
		for _, id := range order {
			r := reqs[id]
			if r.disp == nil || r.inv == nil {
				continue
			}
			w := wins[r.disp.backend]
			if w != nil && w.known && w.obsSeq < r.inv.seq && r.disp.at < w.lo {
				x.Violate("C02", "C02/dispatch-to-ejected{"+strategy+"}", "request %d was dispatched to %s at t=%v although it was ejected until at least t=%v (strategy %s)", id, r.disp.backend, r.disp.at, w.lo, strategy)
				x.Violate("C04", "C04/traffic-inside-window{"+strategy+"}", "request %d was dispatched to %s at t=%v although its unhealthy window lasts until at least t=%v", id, r.disp.backend, r.disp.at, w.lo)
			}
		}
		// ---- passive accounting --------------------------------------------
		burst := len(order) > 1
		resOK := map[string]int{}
		resFail := map[string]int{}
		for _, id := range order {
			r := reqs[id]
			if r.ans == nil {
				continue
			}
			b := r.ans.backend
			failed := r.ans.status >= 500 || r.ans.note == "unreachable"
			if r.ans.note == "ctx-cancelled" {
				continue
			}
			if failed {
				resFail[b]++
				cumFail[b]++
				consecFail[b]++
				lastFailAt[b], everFailed[b] = r.ans.at, true
			} else {
				resOK[b]++
				if !burst {
					consecFail[b] = 0
					uncertain[b] = false // a success restarts "in a row" whatever the counter's phase
				}
			}
		}
		// failures answered while time was passing may have ejected the backend and the window
		// may have elapsed again before this observation: the counter's phase is unknown
		if prev != nil {
			for b, n := range resFail {
				// ... and so is it when the failure arrived while the backend was already flagged
				// (a re-ejection leaves no visible flag change)
				if n > 0 && (cur.at > prev.at || !prev.admin[b]) {
					uncertain[b] = true
				}
			}
		}
		if burst {
			for b := range resOK {
				if resFail[b] > 0 {
					uncertain[b] = true
				} else {
					consecFail[b] = 0
				}
			}
		}
		// failed probes that are complete by now
		rest := pprobes[:0]
		for _, pp := range pprobes {
			complete := cur.at > pp.doneAt || (cur.at == pp.doneAt)
			if !complete {
				rest = append(rest, pp)
				continue
			}
			if pp.fail {
				failedProbe[pp.backend] = true
				if cur.at < pp.doneAt+W {
					failedProbeFresh[pp.backend] = true
				}
				if pp.doneAt > failedProbeAt[pp.backend] {
					failedProbeAt[pp.backend] = pp.doneAt
				}
			}
		}
		pprobes = rest
		// ---- ejection detection & cause rules -------------------------------
		for _, b := range net.order {
			name := b.name
			was := true
			if prev != nil {
				was = prev.admin[name]
			}
			nowHealthy := cur.admin[name]
			// With threshold 1 every failed response is an ejection of its own, also when the
			// flag is already down (a late failure of a request that was in flight): the window
			// restarts. (For larger thresholds the phase of the counter is not observable.)
			ejected := !nowHealthy && (was || touched[name] || (passive && threshold == 1 && resFail[name] > 0))
			mustPassive := passive && consecFail[name] >= threshold && !uncertain[name]
			mayPassive := passive && cumFail[name] >= threshold
			// a failed probe (re-)ejects at its completion, whatever the flag showed before
			if !nowHealthy && !ejected && active && failedProbe[name] {
				at := failedProbeAt[name] + W
				if w := wins[name]; w == nil || at > w.hi {
					wins[name] = &win{lo: at, hi: at, known: true, obsSeq: cur.seq}
				}
			}
			if ejected {
				x.Probe("ejection")
				lo := time.Duration(0)
				if prev != nil {
					lo = prev.at
				}
				wins[name] = &win{lo: lo + W, hi: cur.at + W, known: true, obsSeq: cur.seq}
				if !mayPassive && !failedProbe[name] {
					x.Violate("C04", "C04/ejected-without-cause", "backend %s became unhealthy at t=%v with %d failed responses since its last ejection (threshold %d, passive=%v) and no failed probe", name, cur.at, cumFail[name], threshold, passive)
				}
				// The passive counter restarts at the ejection it caused; failures of requests
				// that were already in flight are accounted after it (leftover). An ejection
				// that may have been caused by a probe leaves the passive count alone
				// (envelope: never under-count what may legitimately eject next).
				if !failedProbe[name] {
					cumFail[name] -= threshold
					if cumFail[name] < 0 {
						cumFail[name] = 0
					}
				}
				consecFail[name], uncertain[name] = 0, false
			} else {
				// (judged only while the window that failure opened cannot have elapsed)
				// threshold 1: every failed response ejects for a full window; a successful probe never
				// revives a backend inside its window (Helios does not even probe ejected backends)
				if passive && threshold == 1 && everFailed[name] && nowHealthy && cur.at >= lastFailAt[name] && cur.at < lastFailAt[name]+W && !mustPassive {
					x.Violate("C04", "C04/not-ejected-at-threshold", "backend %s answered a failed response at t=%v (threshold 1, window %v) and is reported healthy at t=%v", name, lastFailAt[name], W, cur.at)
					// (the window exists whatever the flag says: see below)
					if w := wins[name]; w == nil || lastFailAt[name]+W > w.lo {
						wins[name] = &win{lo: lastFailAt[name] + W, hi: lastFailAt[name] + W, known: true, obsSeq: cur.seq}
					}
				}
				if mustPassive && nowHealthy && cur.at < lastFailAt[name]+W {
					x.Violate("C04", "C04/not-ejected-at-threshold", "backend %s answered %d failed responses in a row (threshold %d) and is still reported healthy at t=%v", name, consecFail[name], threshold, cur.at)
					// whatever the flag says, the backend IS inside an unhealthy window (the threshold-th
					// failure opened it): traffic dispatched into it is C02's business
					if w := wins[name]; w == nil || lastFailAt[name]+W > w.lo {
						wins[name] = &win{lo: lastFailAt[name] + W, hi: lastFailAt[name] + W, known: true, obsSeq: cur.seq}
					}
				}
				if failedProbeFresh[name] && nowHealthy && active {
					x.Violate("C04", "C04/failed-probe-did-not-eject", "backend %s failed an active probe and is still reported healthy at t=%v", name, cur.at)
				}
				if mustPassive && !nowHealthy {
					// still flagged from an earlier ejection: counts restart
					consecFail[name] = 0
				}
			}
			// ---- reporting: inside a known window ⇒ reported unhealthy everywhere
			if w := wins[name]; w != nil && w.known && cur.at < w.lo {
				if cur.admin[name] {
					x.Violate("C04", "C04/reported-healthy-while-ejected{admin}", "backend %s is listed healthy at t=%v although its unhealthy window lasts until at least t=%v", name, cur.at, w.lo)
				}
				if mh, ok := cur.metrics[name]; ok && mh {
					x.Violate("C04", "C04/reported-healthy-while-ejected{metrics}", "metrics report backend %s healthy at t=%v although its unhealthy window lasts until at least t=%v", name, cur.at, w.lo)
				}
			}
		}
		// ---- C02(ii): 503 only if nobody is definitely eligible -------------
		for _, id := range order {
			r := reqs[id]
			if r.ret == nil || r.inv == nil || r.ret.status != 503 || r.disp != nil {
				continue
			}
			x.Probe("no-healthy-503")
			for _, b := range net.order {
				w := wins[b.name]
				eligible := w == nil || (w.known && w.hi < r.inv.at && w.obsSeq < r.inv.seq)
				// any failed response may have (re-)ejected the backend — e.g. the late failure of
				// a request that was in flight — so it is only surely eligible a full window later
				if everFailed[b.name] && r.inv.at <= lastFailAt[b.name]+W {
					eligible = false
				}
				// ... and so may a failed probe: it ejects for a full window from the moment it ends,
				// and with a zero window (active-only configurations) that window is the instant
				// itself -- which no observation ever shows as a flag (sweep #15: a request at the very
				// instant a slow, failing probe ended was rightly told that nobody was eligible)
				if at, ok := failedProbeAt[b.name]; ok && failedProbe[b.name] && r.inv.at <= at+W {
					eligible = false
				}
				if eligible {
					subset := ""
					for _, bb := range net.order {
						if ww := wins[bb.name]; ww != nil && r.inv.at <= ww.hi {
							subset += bb.name + ","
						}
					}
					cause := "eligible-backend-ignored"
					if w != nil {
						cause = "expired-window-not-revived"
					}
					x.Violate("C02", "C02/503-while-eligible{"+strategy+","+cause+"}", "request %d got 503 at t=%v although backend %s is outside every unhealthy window (possibly-ejected set: [%s], strategy %s)", id, r.ret.at, b.name, subset, strategy)
					break
				}
			}
		}
		st := ""
		for _, b := range net.order {
			if cur.admin[b.name] {
				st += "H"
			} else {
				st += "u"
			}
		}
		x.State(strategy, st, fmt.Sprint(threshold))
	}

	failModes := []string{"s500", "s502", "unreach", "s504"}
	var prev *healthObs
	stepObserve := func() bool {
		cur := observe()
		if cur == nil {
			return false
		}
		process(prev, cur)
		prev = cur
		return true
	}
	if !stepObserve() {
		s.Teardown()
		return
	}

	crowdDone := false
	for i := 0; i < nSteps && !x.dead; i++ {
		crowdW := 0
		if strategy == "least_connections" || c.Intn(6, "crowd-any-strategy") == 0 {
			crowdW = 1
		}
		switch c.Pick([]int{8, 4, 3, 4, 2, 2, 2, 2, 2, 1, 1, 2, 2, 2, 2, crowdW}, "step") {
		case 15: // a crowd: well over a hundred slow requests are in flight on every backend when the next
			// one arrives. Busy is not unhealthy: whoever is outside every window is still eligible
			// (the request may queue at the backend; it is not told that nobody is there)
			if crowdDone {
				continue
			}
			crowdDone = true
			per := 100 + c.Intn(30, "crowd-per-backend")
			var plans []*reqPlan
			for j := 0; j < per*nb && !x.dead; j++ {
				p := &reqPlan{hold: true}
				plans = append(plans, p)
				cl := manyClients[j%len(manyClients)]
				s.Spawn("crowd", func() { h.do(reqSpec{client: cl, path: "/crowd", plan: p}) })
			}
			x.Settle(onErr)
			for j := 0; j < 3 && !x.dead; j++ {
				cl := manyClients[(i+j)%len(manyClients)]
				s.Spawn("late", func() { h.do(reqSpec{client: cl, path: "/behind-the-crowd"}) })
				x.Settle(onErr)
			}
			net.mu.Lock()
			for _, p := range plans {
				p.released = true
			}
			net.mu.Unlock()
			x.RunTasks(onErr)
			x.Probe("request-behind-a-crowd")
			steps = append(steps, fmt.Sprintf("crowd(%d per backend)", per))
			if !stepObserve() {
				break
			}
			continue
		case 14: // biased pattern: everybody is ejected at one instant; a request arrives a moment before
			// the windows end (and is rightly told that nobody is available), the next ones a moment
			// after: whatever the balancer remembers from the first look must not outlive the windows
			if !passive {
				continue
			}
			net.mu.Lock()
			for _, b := range net.order {
				b.mode = "s500"
			}
			net.mu.Unlock()
			for j := 0; j < 3*threshold*nb && !x.dead; j++ {
				cl := manyClients[(j*7+i)%len(manyClients)]
				x.Do("req", func() { h.do(reqSpec{client: cl, path: "/eject-all"}) }, onErr)
			}
			net.mu.Lock()
			for _, b := range net.order {
				b.mode = "ok"
			}
			net.mu.Unlock()
			if !stepObserve() {
				break
			}
			before := time.Duration(1+c.Intn(400, "before-end-ms")) * time.Millisecond
			after := time.Duration(1+c.Intn(300, "after-end-ms")) * time.Millisecond
			x.Advance(W-before, onErr)
			x.Do("req", func() { h.do(reqSpec{client: manyClients[i%len(manyClients)], path: "/just-before-the-end"}) }, onErr)
			if !stepObserve() {
				break
			}
			x.Advance(before+after, onErr)
			for j := 0; j < 2 && !x.dead; j++ {
				cl := manyClients[(i+j)%len(manyClients)]
				x.Do("req", func() { h.do(reqSpec{client: cl, path: "/just-after-the-end"}) }, onErr)
				if !stepObserve() {
					break
				}
			}
			x.Probe("requests-around-the-end-of-every-window")
			steps = append(steps, fmt.Sprintf("around-window-end(-%v,+%v)", before, after))
			continue
		case 13: // impatient clients: they hang up before the backend has answered (or before the
			// balancer has even looked at the request). No response, no failed response: that says
			// nothing about the backend
			k := 1 + c.Intn(2*threshold+1, "impatient")
			for j := 0; j < k && !x.dead; j++ {
				cl := clients[c.Intn(len(clients), "client")]
				if c.Intn(2, "gone-early") == 1 {
					x.Do("req", func() { h.do(reqSpec{client: cl, path: "/impatient", preCancelled: true}) }, onErr)
				} else {
					x.Do("req", func() {
						h.do(reqSpec{client: cl, path: "/impatient", plan: &reqPlan{delay: 2 * time.Second}, cancelAfter: 300 * time.Millisecond})
					}, onErr)
				}
				if !stepObserve() {
					break
				}
			}
			x.Fault("client-disconnect")
			steps = append(steps, fmt.Sprintf("impatient-clients(%d)", k))
			continue
		case 12: // biased pattern: the expiry check racing a fresh ejection. Every backend is ejected
			// while slow failing requests are still in flight on them; those fail a moment after the
			// windows have (quietly) elapsed -- and at that very instant new requests arrive, whose
			// "has the window expired?" check interleaves with the re-ejection
			if !passive {
				continue
			}
			// (in half of the runs one backend is spared: it answers well throughout, so whatever
			// happens to the others at the race instant, nobody may be told "no healthy backend")
			spared := -1
			if nb >= 2 && c.Intn(2, "race-spares-one") == 1 {
				spared = c.Intn(len(net.order), "race-spared")
			}
			net.mu.Lock()
			for k, b := range net.order {
				b.mode = "s500"
				if k == spared {
					b.mode = "ok"
				}
			}
			net.mu.Unlock()
			lateD := W + time.Duration(100+c.Intn(400, "race-late-ms"))*time.Millisecond
			spawnAt := x.Now()
			nlate := threshold * nb
			for j := 0; j < nlate; j++ {
				cl := manyClients[(j*13+i)%len(manyClients)]
				s.Spawn("slowreq", func() { h.do(reqSpec{client: cl, path: "/late", plan: &reqPlan{mode: "s500", delay: lateD}}) })
				x.Settle(onErr)
			}
			x.Fault("slow-failing-request")
			for j := 0; j < threshold*nb && !x.dead; j++ {
				cl := manyClients[(j*7+i)%len(manyClients)]
				x.Do("req", func() { h.do(reqSpec{client: cl, path: "/eject"}) }, onErr)
			}
			if !stepObserve() {
				break
			}
			net.mu.Lock()
			for _, b := range net.order {
				b.mode = "ok"
			}
			net.mu.Unlock()
			racers := 1 + c.Intn(3, "racers")
			if spared >= 0 {
				racers = 2 + c.Intn(5, "racers-many")
			}
			for j := 0; j < racers; j++ {
				cl := manyClients[(j*5+i+3)%len(manyClients)]
				s.Spawn("racer", func() {
					if rest := spawnAt + lateD - x.Now(); rest > 0 {
						TaskSleep(rest)
					}
					h.do(reqSpec{client: cl, path: "/race"})
				})
			}
			x.Advance(spawnAt+lateD-x.Now()+time.Millisecond, onErr)
			x.Probe("expiry-check-racing-re-ejection")
			steps = append(steps, fmt.Sprintf("expiry-race(late=%v,racers=%d)", lateD, racers))
			if !stepObserve() {
				break
			}
			for j := 0; j < 3 && !x.dead; j++ {
				cl := manyClients[(j*11+i+1)%len(manyClients)]
				x.Do("req", func() { h.do(reqSpec{client: cl, path: "/after-race"}) }, onErr)
				if !stepObserve() {
					break
				}
				x.Advance(W/5, onErr)
			}
			continue
		case 11: // biased pattern: requests arrive at the very instant of a probe round in which a
			// backend fails its probe: picks overlap the probe-caused ejection
			if !active {
				continue
			}
			b := net.order[c.Intn(len(net.order), "backend")]
			pm := []string{"status", "conn", "status4xx"}[c.Intn(3, "probemode")]
			net.mu.Lock()
			b.probeMode = pm
			net.mu.Unlock()
			x.Fault("probe-" + pm)
			now := x.Now()
			d := (now/I+1)*I - now
			k := 3 + c.Intn(4, "burst")
			steps = append(steps, fmt.Sprintf("requests-at-failing-probe-round(%s,%s,%d,in %v)", b.name, pm, k, d))
			var ts []*simrt.Task
			for j := 0; j < k; j++ {
				cl := manyClients[c.Intn(len(manyClients), "client")]
				ts = append(ts, s.Spawn("at-tick", func() { TaskSleep(d); h.do(reqSpec{client: cl, path: "/at-tick"}) }))
			}
			x.WaitFor(onErr, ts...)
		case 10: // the operator switches the strategy: health state and its reporting carry over
			ns := strategies[c.Intn(5, "new-strategy")]
			if c.Intn(2, "switch-under-traffic") == 1 {
				// the switch happens while requests are choosing their backend: whatever the balancer
				// does in between, a request never finds the pool empty
				k := 2 + c.Intn(4, "switch-racers")
				s.Spawn("set-strategy", func() {
					if err := h.lb.SetStrategy(ns); err != nil {
						panic(err)
					}
				})
				for j := 0; j < k; j++ {
					cl := manyClients[(i+3*j)%len(manyClients)]
					s.Spawn("switch-racer", func() { h.do(reqSpec{client: cl, path: "/during-the-switch"}) })
				}
				x.RunTasks(onErr)
				x.Probe("strategy-switch-under-traffic")
			} else {
				x.Do("set-strategy", func() {
					if err := h.lb.SetStrategy(ns); err != nil {
						panic(err)
					}
				}, onErr)
			}
			strategy = ns
			steps = append(steps, "strategy("+ns+")")
			x.Logf("step strategy %s", ns)
		case 9: // biased pattern: every backend is failing and gets ejected; the operator adds a fresh
			// healthy one through the admin path: it is eligible at once (it was never ejected)
			if added || !passive {
				continue
			}
			added = true
			net.mu.Lock()
			for _, b := range net.order {
				b.mode = "s500"
			}
			net.mu.Unlock()
			x.Fault("backend-s500")
			for j := 0; j < threshold*len(net.order)+2 && !x.dead; j++ {
				cl := manyClients[c.Intn(len(manyClients), "client")]
				x.Do("req", func() { h.do(reqSpec{client: cl, path: "/storm"}) }, onErr)
				if !stepObserve() {
					break
				}
			}
			nm := fmt.Sprintf("b%d", len(net.order))
			host := x.BackendHost(1, len(net.order)+1)
			net.add(nm, host, "")
			addedWeight = 1 + c.Intn(3, "w")
			x.Do("add", func() {
				if err := h.lb.AddBackend(config.BackendConfig{Name: nm, Address: "http://" + host, Weight: addedWeight}); err != nil {
					panic(err)
				}
			}, onErr)
			steps = append(steps, "all-fail-then-add("+nm+")")
			x.Logf("step add %s", nm)
			if !stepObserve() {
				break
			}
			for j := 0; j < 2 && !x.dead; j++ {
				cl := manyClients[c.Intn(len(manyClients), "client")]
				x.Do("req", func() { h.do(reqSpec{client: cl, path: "/after-add"}) }, onErr)
				if !stepObserve() {
					break
				}
			}
			net.mu.Lock()
			for _, b := range net.order {
				b.mode = "ok"
			}
			net.mu.Unlock()
			continue
		case 8: // biased pattern: a failing answer lands at the very instant a probe round runs, so
			// that the ejection and the processing of a (successful) probe result interleave
			if !active || !passive {
				continue
			}
			b := net.order[c.Intn(nb, "backend")]
			now := x.Now()
			next := (now/I + 1) * I
			d := next - now
			net.mu.Lock()
			pslow := time.Duration(0)
			if b.probeMode == "slow" && b.probeSlow <= PT {
				pslow = b.probeSlow
			}
			net.mu.Unlock()
			fm := failModes[c.Intn(len(failModes), "failmode")]
			k := threshold
			steps = append(steps, fmt.Sprintf("probe-aligned-failure(%s,%s,x%d,in %v)", b.name, fm, k, d+pslow))
			x.Fault("slow-failing-request")
			// k requests pinned to that backend by making every other backend fail faster is not
			// possible here; instead all backends answer this burst with the failure
			net.mu.Lock()
			saved := map[string]string{}
			for _, bb := range net.order {
				saved[bb.name] = bb.mode
			}
			net.mu.Unlock()
			for j := 0; j < k; j++ {
				cl := manyClients[c.Intn(len(manyClients), "client")]
				s.Spawn("slowreq", func() { h.do(reqSpec{client: cl, path: "/aligned", plan: &reqPlan{mode: fm, delay: d + pslow}}) })
			}
			x.Settle(onErr)
			if !stepObserve() {
				break
			}
			x.Advance(d+pslow, onErr)
		case 7: // biased pattern: a backend starts failing and a burst of concurrent requests from
			// different clients arrives: picks of other requests overlap the ejection
			b := net.order[c.Intn(nb, "backend")]
			m := failModes[c.Intn(len(failModes), "failmode")]
			net.mu.Lock()
			b.mode = m
			net.mu.Unlock()
			x.Fault("backend-" + m)
			k := 3 + c.Intn(4, "burst")
			steps = append(steps, fmt.Sprintf("fail-then-burst(%s,%s,%d)", b.name, m, k))
			var ts []*simrt.Task
			for j := 0; j < k; j++ {
				cl := manyClients[c.Intn(len(manyClients), "client")]
				ts = append(ts, s.Spawn("burst", func() { h.do(reqSpec{client: cl, path: "/fburst"}) }))
			}
			x.WaitFor(onErr, ts...)
		case 6: // biased pattern: failures of requests already in flight arrive late — inside the
			// window they did not cause, or after it has quietly elapsed — then traffic resumes
			net.mu.Lock()
			for _, b := range net.order {
				b.mode = "s500"
			}
			net.mu.Unlock()
			nslow := 1 + c.Intn(2, "late-n")
			for j := 0; j < nslow; j++ {
				d := []time.Duration{W / 2, W + 300*time.Millisecond, W + W/2}[c.Intn(3, "late-d")]
				cl := clients[c.Intn(len(clients), "client")]
				s.Spawn("slowreq", func() { h.do(reqSpec{client: cl, path: "/late", plan: &reqPlan{mode: "s500", delay: d}}) })
				x.Settle(onErr)
			}
			x.Fault("slow-failing-request")
			cl := clients[c.Intn(len(clients), "client")]
			for j := 0; j < threshold*nb && !x.dead; j++ {
				x.Do("req", func() { h.do(reqSpec{client: cl, path: "/eject"}) }, onErr)
				if !stepObserve() {
					break
				}
			}
			net.mu.Lock()
			for _, b := range net.order {
				b.mode = "ok"
			}
			net.mu.Unlock()
			steps = append(steps, fmt.Sprintf("late-failures(%d)", nslow))
			for j := 0; j < 4 && !x.dead; j++ {
				x.Advance([]time.Duration{W / 2, W/2 + 200*time.Millisecond, W / 4, W + 100*time.Millisecond}[c.Intn(4, "late-gap")], onErr)
				if !stepObserve() {
					break
				}
				x.Do("req", func() { h.do(reqSpec{client: cl, path: "/after"}) }, onErr)
				if !stepObserve() {
					break
				}
			}
			continue
		case 5: // a slow request that stays in flight across the following steps and then fails
			cl := clients[c.Intn(len(clients), "client")]
			var d time.Duration
			switch c.Intn(4, "slow-d") {
			case 0:
				d = W / 2
			case 1:
				d = W + 500*time.Millisecond
			case 2:
				d = 2*W + 250*time.Millisecond
			case 3:
				d = 750 * time.Millisecond
			}
			fm := failModes[c.Intn(len(failModes), "failmode")]
			steps = append(steps, fmt.Sprintf("slowfail(%s,%v,%s)", cl, d, fm))
			x.Fault("slow-failing-request")
			s.Spawn("slowreq", func() { h.do(reqSpec{client: cl, path: "/slow", plan: &reqPlan{mode: fm, delay: d}}) })
			x.Settle(onErr)
			continue
		case 0: // single request
			cl := clients[c.Intn(len(clients), "client")]
			steps = append(steps, "req("+cl+")")
			x.Do("req", func() { h.do(reqSpec{client: cl, path: fmt.Sprintf("/p%d", i)}) }, onErr)
		case 1: // change a backend's behaviour
			b := net.order[c.Intn(nb, "backend")]
			m := "ok"
			if c.Intn(4, "fail?") != 0 {
				m = failModes[c.Intn(len(failModes), "failmode")]
				x.Fault("backend-" + m)
			}
			net.mu.Lock()
			b.mode = m
			net.mu.Unlock()
			steps = append(steps, fmt.Sprintf("mode(%s,%s)", b.name, m))
			x.Logf("step mode %s=%s", b.name, m)
			continue
		case 2: // change probe behaviour
			b := net.order[c.Intn(nb, "backend")]
			pm := []string{"ok", "status", "conn", "slow", "status4xx"}[c.Intn(5, "probemode")]
			net.mu.Lock()
			b.probeMode = pm
			if pm == "slow" {
				// never exactly the probe timeout: two timers due at the same instant would make
				// the outcome depend on select's choice among ready cases
				b.probeSlow = []time.Duration{PT / 2, PT / 4, PT + time.Second, 3 * PT}[c.Intn(4, "probeslow")]
			}
			net.mu.Unlock()
			if pm != "ok" && active {
				x.Fault("probe-" + pm)
			}
			steps = append(steps, fmt.Sprintf("probemode(%s,%s)", b.name, pm))
			x.Logf("step probemode %s=%s", b.name, pm)
			continue
		case 3: // time passes
			var d time.Duration
			switch c.Intn(7, "dt") {
			case 0:
				d = W / 2
			case 1:
				d = W
			case 2:
				d = W + time.Millisecond
			case 3:
				d = W - time.Millisecond
			case 4:
				d = 2 * W
			case 5:
				d = I
			case 6:
				d = I + PT
			}
			steps = append(steps, fmt.Sprintf("time(%v)", d))
			x.Logf("step time %v", d)
			x.Advance(d, onErr)
		case 4: // burst of concurrent requests
			k := 2 + c.Intn(3, "burst")
			steps = append(steps, fmt.Sprintf("burst(%d)", k))
			var ts []*simrt.Task
			for j := 0; j < k; j++ {
				cl := clients[c.Intn(len(clients), "client")]
				ts = append(ts, s.Spawn("burst", func() { h.do(reqSpec{client: cl, path: "/burst"}) }))
			}
			x.WaitFor(onErr, ts...)
		}
		if !stepObserve() {
			break
		}
	}
	x.Sample["steps"] = steps

	// ---- recovery (C04 bounded liveness, C02) -----------------------------------
	// slow requests that are still in flight finish (and fail) first
	if !x.dead {
		x.RunTasks(onErr)
		stepObserve()
	}
	if !x.dead {
		net.mu.Lock()
		for _, b := range net.order {
			b.mode, b.probeMode = "ok", "ok"
		}
		net.mu.Unlock()
		wait := W + time.Second
		if active {
			wait += I + PT
		}
		x.Logf("recovery: all backends ok, waiting %v", wait)
		x.Advance(wait, onErr)
		stepObserve()
		before := map[string]int{}
		net.mu.Lock()
		for _, b := range net.order {
			before[b.name] = b.dispatched
		}
		net.mu.Unlock()
		bad := 0
		switch strategy {
		case "least_connections":
			// hold one request per backend so that each becomes the unique minimum in turn
			var plans []*reqPlan
			for j := 0; j < len(net.order) && !x.dead; j++ {
				p := &reqPlan{hold: true}
				plans = append(plans, p)
				s.Spawn("rec-hold", func() {
					if r := h.do(reqSpec{client: "192.0.2.50", path: "/recover", plan: p}); r.status != 200 {
						x.mu.Lock()
						bad++
						x.mu.Unlock()
					}
				})
				x.Settle(onErr)
			}
			net.mu.Lock()
			for _, p := range plans {
				p.released = true
			}
			net.mu.Unlock()
			x.RunTasks(onErr)
		case "ip_hash", "ip_hash_consistent":
			for j := 0; j < 120 && !x.dead; j++ {
				cl := fmt.Sprintf("172.16.%d.%d", j/200, 1+j%200)
				x.Do("rec", func() {
					if r := h.do(reqSpec{client: cl, path: "/recover"}); r.status != 200 {
						bad++
					}
				}, onErr)
			}
		default:
			total := 0
			for _, bc := range bcs {
				w := bc.Weight
				if w < 1 {
					w = 1
				}
				total += w
			}
			total += addedWeight
			for j := 0; j < 2*total && !x.dead; j++ {
				x.Do("rec", func() {
					if r := h.do(reqSpec{client: "192.0.2.50", path: "/recover"}); r.status != 200 {
						bad++
					}
				}, onErr)
			}
		}
		if !x.dead {
			stepObserve()
			net.mu.Lock()
			var starved []string
			for _, b := range net.order {
				if b.dispatched == before[b.name] {
					starved = append(starved, b.name)
				}
			}
			net.mu.Unlock()
			if len(starved) > 0 {
				x.Violate("C04", "C04/no-recovery{"+strategy+fmt.Sprintf(",active=%v", active)+"}", "after the unhealthy window (+probe interval) backends %v received no traffic from the recovery workload (strategy %s, active=%v)", starved, strategy, active)
			} else {
				x.Probe("recovered")
			}
			if bad > 0 {
				x.Violate("C04", "C04/recovery-requests-failed{"+strategy+"}", "%d recovery requests did not return 200 although every backend is healthy and every window has elapsed", bad)
			}
		}
	}
	if left := s.Teardown(); left > 0 {
		x.Probe("teardown-left")
	}
}

func fmtFlags(m map[string]bool) string {
	s := ""
	for _, k := range sortedKeys(m) {
		if m[k] {
			s += k + "=H "
		} else {
			s += k + "=u "
		}
	}
	return s
}
