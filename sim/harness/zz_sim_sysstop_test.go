package main

// Scenario "sysstop": the real shutdownGracefully(server, balancer, timeout)
// with requests in flight (system part of C19): before the backend answered,
// mid-body, held by a slow backend; active probing on or off; a second
// shutdown call. Oracle: returns within the shutdown timeout (+ one probe
// timeout), requests that can finish within the timeout complete with their
// full response, no probe reaches any backend after it returned.

import (
	"bufio"
	"bytes"
	"fmt"
	"io"
	"net"
	"net/http"
	"time"

	"github.com/0xReLogic/Helios/internal/config"
)

func init() {
	register(&Scenario{Name: "sysstop", Props: []string{"C19"}, Kind: "system", Run: runSysStop})
}

func runSysStop(x *X) {
	c := x.C
	T := 2 + c.Intn(9, "shutdown-timeout")
	o := sysOpts{strategy: strategies[c.Intn(5, "strategy")], nBackends: 1 + c.Intn(2, "nbackends")}
	o.timeouts = config.TimeoutConfig{Read: 60, Write: 60, Idle: 60, BackendRead: 60, Handler: 120, Shutdown: T}
	if c.Intn(2, "active") == 1 {
		o.active, o.interval, o.window = true, 2+c.Intn(9, "interval"), 5
		o.ptimeout = 1 + c.Intn(o.interval-1, "ptimeout")
	}
	env, err := newSysEnv(x, o)
	if err != nil {
		panic(err)
	}
	defer env.close()
	slowProbe := false
	if o.active && c.Intn(3, "slow-probe") == 0 {
		slowProbe = true
		env.mu.Lock()
		env.backends[0].probeSlow = time.Duration(o.ptimeout+2) * time.Second // a stalled health endpoint
		env.mu.Unlock()
		x.Fault("probe-slow")
	} else if o.active && c.Intn(2, "probe-slow-but-in-time") == 0 {
		// health endpoints that take most of the probe timeout and then answer 200: the backends are
		// healthy, a probe is in flight most of the time (also when the signal arrives)
		env.mu.Lock()
		for _, b := range env.backends {
			b.probeSlow = time.Duration(o.ptimeout)*time.Second - time.Duration(200+c.Intn(500, "probe-margin-ms"))*time.Millisecond
		}
		env.mu.Unlock()
		x.Probe("probe-slow-but-in-time")
	}
	// the signal does not only come right after start-up: let the prober get into its rhythm first, so
	// that the signal can land anywhere in a probe round
	if o.active && c.Intn(2, "lead-time") == 1 {
		env.drive(driveOpts{idleFor: time.Duration(c.Intn(2*o.interval*1000, "lead-ms")) * time.Millisecond})
		x.Probe("shutdown-after-lead-time")
	}
	nClients := 1 + c.Intn(3, "nclients")
	for i := 0; i < nClients; i++ {
		env.addClient(fmt.Sprintf("198.51.100.%d:43000", 70+i))
	}
	TD := time.Duration(T) * time.Second
	var all []*exchange
	type plan struct {
		hold     time.Duration
		midBody  time.Duration
	}
	plans := map[int]plan{}
	n := 1 + c.Intn(4, "nexchanges")
	for i := 0; i < n; i++ {
		cl := env.clients[c.Intn(nClients, "client")]
		ex := env.newExchange(cl)
		ex.method, ex.target = "GET", fmt.Sprintf("/s/%d", i)
		rs := &respScript{status: 200, framing: []string{"cl", "chunked"}[c.Intn(2, "framing")], hdr: []hdrKV{{"Content-Type", "text/plain"}}}
		rs.body = sizedBody(x, 50+c.Intn(3000, "body"), true, "resp")
		var p plan
		switch c.Intn(4, "inflight-kind") {
		case 0: // fast
		case 1: // held before headers, finishes in time
			p.hold = time.Duration(c.Intn(T*1000-900, "hold-ms")) * time.Millisecond
		case 2: // pause mid-body, finishes in time
			p.midBody = time.Duration(c.Intn(T*1000-900, "mid-ms")) * time.Millisecond
			rs.steps = []respStep{{kind: "write", n: len(rs.body) / 2}, {kind: "sleep", d: p.midBody}}
		case 3: // does not finish within the timeout
			p.hold = TD + time.Duration(1+c.Intn(5, "over-s"))*time.Second
			x.Fault("request-longer-than-shutdown-timeout")
		}
		rs.holdFor = p.hold
		// a slow client whose request head is still on its way when the signal comes: the connection is
		// open and busy, the server waits for it, the request is served like any other
		if c.Intn(3, "slow-head") == 0 {
			ex.headPause = time.Duration(50+c.Intn(900, "head-pause-ms")) * time.Millisecond
			x.Probe("slow-request-head")
		}
		ex.resp = rs
		plans[ex.id] = p
		all = append(all, ex)
	}
	// an Upgrade (WebSocket) session that is open when the signal arrives and stays open:
	// http.Server does not track hijacked connections; shutdown must neither wait for it nor hang
	wsOpen := c.Intn(4, "open-websocket") == 0
	if wsOpen {
		x.Fault("open-upgrade-session-at-shutdown")
		wsBackendHook = func(conn net.Conn, br *bufio.Reader, req *http.Request) {
			io.WriteString(conn, "HTTP/1.1 101 Switching Protocols\r\nUpgrade: websocket\r\nConnection: Upgrade\r\n\r\n")
			buf := make([]byte, 256)
			for {
				if _, err := conn.Read(buf); err != nil {
					return
				}
			}
		}
		defer func() { wsBackendHook = nil }()
		go func() {
			conn, err := env.net.Dial("wsclient", "198.51.100.99:45000", heliosAddr, 0, nil)
			if err != nil {
				return
			}
			io.WriteString(conn, "GET /ws HTTP/1.1\r\nHost: helios.test\r\nUpgrade: websocket\r\nConnection: Upgrade\r\nSec-WebSocket-Key: dGhlIHNhbXBsZSBub25jZQ==\r\nSec-WebSocket-Version: 13\r\n\r\n")
			buf := make([]byte, 256)
			for {
				if _, err := conn.Read(buf); err != nil {
					return
				}
			}
		}()
	}
	stopAfter := c.Intn(12, "stop-after-steps")
	second := c.Intn(3, "second-shutdown") == 0
	x.Sample["config"] = fmt.Sprintf("shutdown_timeout=%ds active=%v clients=%d exchanges=%d stop_after_steps=%d second_call=%v open_websocket=%v", T, o.active, nClients, n, stopAfter, second, wsOpen)
	x.Logf("sysstop %s", x.Sample["config"])
	var invAt, retAt time.Duration
	invoked, returned := false, false
	var probeBytesAtReturn int64
	shutdown := func() {
		go func() {
			shutdownGracefully(env.srv, env.lb, TD)
			env.mu.Lock()
			if !returned {
				returned, retAt = true, x.Now()
				probeBytesAtReturn = env.net.SentBy("probe")
			}
			env.mu.Unlock()
			x.Logf("shutdown returned t=%v", x.Now())
			env.net.Bump()
		}()
	}
	steps := 0
	extra := func() []string {
		steps++
		if !invoked && steps > stopAfter {
			return []string{"shutdown"}
		}
		if invoked && second {
			second = false
			return []string{"shutdown-again"}
		}
		return nil
	}
	apply := func(name string) {
		if name == "shutdown" {
			invoked, invAt = true, x.Now()
			x.Logf("shutdown invoked t=%v", invAt)
		} else {
			x.Probe("second-shutdown")
		}
		shutdown()
	}
	env.driveUntil(driveOpts{fragment: true, delays: true, maxVirtual: 3 * time.Minute, extra: extra, applyExtra: apply}, func() bool {
		env.mu.Lock()
		defer env.mu.Unlock()
		return returned
	})
	if !invoked {
		invoked, invAt = true, x.Now()
		x.Logf("shutdown invoked t=%v (after the workload)", invAt)
		shutdown()
		env.driveUntil(driveOpts{maxVirtual: 3 * time.Minute}, func() bool { env.mu.Lock(); defer env.mu.Unlock(); return returned })
	}
	for _, p := range stdLogWatcher.take() {
		x.Violate("C19", "C19/panic-during-shutdown", "net/http reported: %s", p)
	}
	env.mu.Lock()
	ret, rAt := returned, retAt
	env.mu.Unlock()
	// server.Shutdown is bounded by the timeout; Stop cancels in-flight probes and must not
	// add a probe timeout on top
	slack := 100 * time.Millisecond
	if !ret {
		x.Violate("C19", "C19/shutdown-did-not-return", "shutdownGracefully had not returned %v after it was called (timeout %v)", x.Now()-invAt, TD)
		return
	}
	if rAt-invAt > TD+slack {
		x.Violate("C19", "C19/shutdown-exceeded-timeout", "shutdownGracefully took %v, shutdown timeout %v", rAt-invAt, TD)
	}
	x.Probe("shutdown-returned")
	// in-flight requests that can finish within the timeout complete in full
	for _, ex := range all {
		p := plans[ex.id]
		if !ex.started || len(ex.seen) == 0 || ex.seen[0].at > invAt {
			continue // had not reached a backend when the signal arrived: not (surely) in flight
		}
		need := p.hold + p.midBody
		finishBy := ex.startedAt + need
		if finishBy > invAt+TD-time.Second {
			continue // would not (safely) finish within the timeout: may be cut
		}
		x.Probe("in-flight-at-shutdown")
		got := ex.got
		if !ex.done || got == nil || got.err != "" || got.status != 200 || !bytes.Equal(got.body, ex.resp.body) {
			st, n, e := 0, 0, ""
			if got != nil {
				st, n, e = got.status, len(got.body), got.err
			}
			x.Violate("C19", "C19/in-flight-request-cut", "exchange %d was in flight when shutdown began at t=%v and needed only until t=%v (timeout %v) but did not complete in full: done=%v status=%d body=%d/%d err=%q", ex.id, invAt, finishBy, TD, ex.done, st, n, len(ex.resp.body), e)
		}
	}
	// a request Helios answers during the drain is answered on its merits: every backend is up and
	// answers its probes, so nothing justifies a 503 (shutting down is not a backend failure; a request
	// that is not served at all sees its connection closed, which is the listener's business)
	if !slowProbe {
		for _, ex := range all {
			if ex.done && ex.got != nil && ex.got.err == "" && ex.got.status == 503 {
				x.Violate("C19", "C19/request-refused-during-drain{503}", "exchange %d (first bytes sent t=%v, shutdown began t=%v, returned t=%v) was answered 503 %q although every backend was up and answering its probes", ex.id, ex.startedAt, invAt, rAt, trunc(string(ex.got.body), 60))
			} else if ex.done && ex.got != nil && ex.got.err == "" && ex.got.status == 200 && len(ex.seen) > 0 && ex.seen[0].at > invAt {
				x.Probe("request-routed-during-drain")
			}
		}
	}
	// no probe after return: let a few intervals pass
	env.drive(driveOpts{idleFor: time.Duration(3*o.interval+2) * time.Second})
	// (bytes a probe had already put on the wire before the return may still arrive later;
	// what must not happen is a new connection attempt or new bytes from the prober)
	if now := env.net.SentBy("probe"); now > probeBytesAtReturn {
		x.Violate("C19", "C19/probe-after-shutdown", "the health prober opened a connection or sent %d more bytes after shutdown had returned", now-probeBytesAtReturn)
	}
}
