package main

// Scenario "wspool": the real WebSocketPool under 1-3 concurrent holder tasks
// and the fake clock (pool part of C20): a connection is never handed to two
// holders, never returned after idling longer than idle_timeout or after the
// pool closed it, idle <= max_idle at quiescent points, everything the pool
// holds is closed on shutdown, the pool never closes a connection a holder has.

import (
	"fmt"
	"net"
	"sync"
	"time"

	"github.com/0xReLogic/Helios/internal/loadbalancer"
	"vsim/simrt"
)

func init() {
	register(&Scenario{Name: "wspool", Props: []string{"C20", "C19"}, Kind: "micro", Run: runWSPool})
}

type fakeConn struct {
	id      int
	backend string
	mu      sync.Mutex
	closed  bool
	closedAt time.Duration
	onClose func(*fakeConn)
}

func (f *fakeConn) Read(b []byte) (int, error)  { return 0, net.ErrClosed }
func (f *fakeConn) Write(b []byte) (int, error) { return len(b), nil }
func (f *fakeConn) Close() error {
	// closing a socket is a system call: the goroutine can lose the CPU here
	simrt.Yield("conn-close")
	f.mu.Lock()
	was := f.closed
	f.closed = true
	f.mu.Unlock()
	if !was && f.onClose != nil {
		f.onClose(f)
	}
	return nil
}
func (f *fakeConn) isClosed() bool               { f.mu.Lock(); defer f.mu.Unlock(); return f.closed }
func (f *fakeConn) LocalAddr() net.Addr            { return &net.TCPAddr{} }
func (f *fakeConn) RemoteAddr() net.Addr           { return &net.TCPAddr{} }
func (f *fakeConn) SetDeadline(time.Time) error      { return nil }
func (f *fakeConn) SetReadDeadline(time.Time) error  { return nil }
func (f *fakeConn) SetWriteDeadline(time.Time) error { return nil }

type poolOp struct {
	kind    string // get | putnew | putheld | closeheld | sleep | stats
	backend string
	d       time.Duration
}

func runWSPool(x *X) {
	c := x.C
	maxIdle := c.Intn(4, "maxidle")
	idleTimeout := time.Duration(1+c.Intn(90, "idle")) * time.Second
	if c.Intn(10, "idle-zero") == 0 {
		idleTimeout = 0 // nothing may be handed out once any time has passed
	}
	backends := []string{"be1", "be2"}[:1+c.Intn(2, "nbackends")]
	nTasks := 1 + c.Intn(3, "tasks")
	maxOps := 10
	if x.Tier == "thorough" {
		maxOps = 24
	}
	shutdownAtEnd := c.Intn(3, "shutdown") != 0
	x.Sample["config"] = fmt.Sprintf("max_idle=%d idle_timeout=%v backends=%v tasks=%d shutdown=%v", maxIdle, idleTimeout, backends, nTasks, shutdownAtEnd)
	x.Logf("wspool %s", x.Sample["config"])
	midShutdown := false
	scripts := make([][]poolOp, nTasks)
	for t := range scripts {
		n := 2 + c.Intn(maxOps, "nops")
		for i := 0; i < n; i++ {
			op := poolOp{backend: backends[c.Intn(len(backends), "backend")]}
			if !midShutdown && c.Intn(40, "mid-run-shutdown") == 0 {
				// Shutdown in the middle of traffic (the balancer is stopped while sessions end):
				// whatever a concurrent Get returns must still be open
				midShutdown = true
				scripts[t] = append(scripts[t], poolOp{kind: "shutdown"})
				continue
			}
			switch c.Pick([]int{4, 4, 4, 2, 3, 1}, "op") {
			case 0:
				op.kind = "get"
			case 1:
				op.kind = "putnew"
			case 2:
				op.kind = "putheld"
			case 3:
				op.kind = "closeheld"
			case 4:
				op.kind = "sleep"
				switch c.Intn(8, "dt") {
				case 6, 7:
					// exactly one cleanup period: the holder's next operation and the pool's
					// cleanup pass become runnable at the same virtual instant and interleave
					op.d = 30 * time.Second
				case 0:
					op.d = idleTimeout / 2
				case 1:
					op.d = idleTimeout + time.Millisecond
				case 2:
					op.d = idleTimeout - time.Millisecond
				case 3:
					op.d = 30*time.Second + 7*time.Millisecond // just past a cleanup tick
				case 4:
					op.d = 2 * idleTimeout
				case 5:
					op.d = time.Second
				}
			case 5:
				op.kind = "stats"
			}
			scripts[t] = append(scripts[t], op)
		}
	}
	if c.Intn(10, "shutdown-at-cleanup-tick") == 0 {
		// biased pattern: connections parked until they are stale, then Shutdown at the very instant
		// of a cleanup tick (the balancer is stopped while the sweep is closing what has expired)
		var sc []poolOp
		for k := 0; k < 1+c.Intn(3, "parked"); k++ {
			sc = append(sc, poolOp{kind: "putnew", backend: backends[c.Intn(len(backends), "backend")]})
		}
		ticks := 1 + int(idleTimeout/(30*time.Second))
		sc = append(sc, poolOp{kind: "sleep", d: time.Duration(ticks) * 30 * time.Second}, poolOp{kind: "shutdown"})
		scripts[0] = sc
		midShutdown = true
		x.Probe("shutdown-at-cleanup-tick")
	}
	var desc []string
	for t, sc := range scripts {
		d := fmt.Sprintf("t%d:", t)
		for _, op := range sc {
			if op.kind == "sleep" {
				d += fmt.Sprintf(" sleep(%v)", op.d)
			} else {
				d += " " + op.kind + "(" + op.backend + ")"
			}
		}
		desc = append(desc, d)
	}
	x.Sample["scripts"] = desc

	s := x.StartMicro()
	onErr := func(e *simrt.SchedError) {
		x.Violate("C20", "C20/pool-blocked{"+e.Kind+"}", "pool operations no longer return: %s", e.Error())
		x.Violate("C19", "C19/stop-blocked{pool-"+e.Kind+"}", "the pool's Shutdown (called by LoadBalancer.Stop) or the operations around it no longer return: %s", e.Error())
		x.Violate("C12", "C12/"+e.Kind+"{wspool}", "%s", e.Error())
		x.Blocked(e, "wspool")
	}
	var pool *loadbalancer.WebSocketPool
	x.Do("setup", func() { pool = loadbalancer.NewWebSocketPool(maxIdle, 100, idleTimeout) }, onErr)

	// harness view of every connection
	const (
		stHeld    = "held"
		stTransit = "in-put"
		stIdle    = "idle"
		stClosed  = "closed"
	)
	type cinfo struct {
		state   string
		holder  int
		idleAt  time.Duration
	}
	var mu sync.Mutex
	info := map[int]*cinfo{}
	all := map[int]*fakeConn{}
	nextID := 0
	closedWhileHeld := func(f *fakeConn) {
		mu.Lock()
		ci := info[f.id]
		st := ""
		if ci != nil {
			st = ci.state
		}
		mu.Unlock()
		if st == stHeld {
			x.Violate("C20", "C20/pool-closed-held-connection", "the pool closed connection #%d while a holder was using it", f.id)
		}
	}
	newConn := func(backend string, holder int) *fakeConn {
		mu.Lock()
		nextID++
		f := &fakeConn{id: nextID, backend: backend}
		info[f.id] = &cinfo{state: stHeld, holder: holder}
		all[f.id] = f
		mu.Unlock()
		f.onClose = closedWhileHeld
		return f
	}
	for t := range scripts {
		tid := t
		script := scripts[t]
		s.Spawn(fmt.Sprintf("holder%d", tid), func() {
			var held []*fakeConn
			for _, op := range script {
				switch op.kind {
				case "sleep":
					TaskSleep(op.d)
				case "shutdown":
					x.Logf("t%d shutdown", tid)
					x.Fault("pool-shutdown-during-traffic")
					pool.Shutdown()
				case "stats":
					idle, _ := pool.Stats(op.backend)
					if idle > maxIdle {
						x.Violate("C20", "C20/too-many-idle", "Stats(%s) reports %d idle connections, max_idle=%d", op.backend, idle, maxIdle)
					}
				case "get":
					conn := pool.Get(op.backend)
					x.Logf("t%d get(%s) -> %v", tid, op.backend, connID(conn))
					if conn == nil {
						continue
					}
					f := conn.(*fakeConn)
					mu.Lock()
					ci := info[f.id]
					st, holder, idleFor := ci.state, ci.holder, x.Now()-ci.idleAt
					wasIdle := st == stIdle
					ci.state, ci.holder = stHeld, tid
					mu.Unlock()
					switch {
					case st == stHeld:
						x.Violate("C20", "C20/connection-handed-to-two-holders", "Get(%s) returned connection #%d to holder %d while holder %d still has it", op.backend, f.id, tid, holder)
					case f.isClosed():
						x.Violate("C20", "C20/closed-connection-returned", "Get(%s) returned connection #%d which the pool had already closed", op.backend, f.id)
					case wasIdle && idleFor > idleTimeout:
						x.Violate("C20", "C20/stale-connection-returned", "Get(%s) returned connection #%d after it idled %v (idle_timeout %v)", op.backend, f.id, idleFor, idleTimeout)
					}
					if f.backend != op.backend {
						x.Violate("C20", "C20/wrong-backend-connection", "Get(%s) returned a connection that belongs to %s", op.backend, f.backend)
					}
					held = append(held, f)
					x.Probe("pool-hit")
				case "putnew", "putheld":
					var f *fakeConn
					if op.kind == "putheld" && len(held) > 0 {
						f = held[len(held)-1]
						held = held[:len(held)-1]
					} else {
						f = newConn(op.backend, tid)
					}
					mu.Lock()
					info[f.id].state = stTransit
					mu.Unlock()
					at := x.Now()
					ok := pool.Put(f.backend, f)
					x.Logf("t%d put(%s,#%d) -> %v", tid, f.backend, f.id, ok)
					mu.Lock()
					ci := info[f.id]
					if ok {
						if ci.state == stTransit { // nobody got it meanwhile
							ci.state, ci.idleAt = stIdle, at
						} else if ci.idleAt == 0 {
							ci.idleAt = at
						}
					} else {
						ci.state = stClosed
					}
					mu.Unlock()
					if !ok && !f.isClosed() {
						x.Violate("C20", "C20/rejected-connection-leaked", "Put(%s,#%d) returned false but the connection was not closed", f.backend, f.id)
					}
				case "closeheld":
					if len(held) == 0 {
						continue
					}
					f := held[len(held)-1]
					held = held[:len(held)-1]
					mu.Lock()
					info[f.id].state = stClosed
					mu.Unlock()
					pool.Close(f.backend, f)
					// Close means closed: whatever the pool still knows about that backend (nothing at
					// all after a Shutdown, or for a backend nothing was ever parked for)
					if !f.isClosed() {
						x.Violate("C20", "C20/close-left-connection-open", "Close(%s, conn %d) returned and the connection is still open", f.backend, f.id)
						x.Violate("C19", "C19/pooled-connections-left-open", "a connection that was checked out when the pool was shut down was handed to Close afterwards and is still open")
					}
				}
			}
			// holders drop what they still have
			for _, f := range held {
				mu.Lock()
				info[f.id].state = stClosed
				mu.Unlock()
				pool.Close(f.backend, f)
				if !f.isClosed() {
					x.Violate("C20", "C20/close-left-connection-open", "Close(%s, conn %d) returned and the connection is still open", f.backend, f.id)
					x.Violate("C19", "C19/pooled-connections-left-open", "a connection that was checked out when the pool was shut down was handed to Close afterwards and is still open")
				}
			}
		})
	}
	if !x.RunTasks(onErr) {
		s.Teardown()
		return
	}
	// quiescent: idle count within bound
	x.Do("stats", func() {
		for _, b := range backends {
			idle, _ := pool.Stats(b)
			if idle > maxIdle {
				x.Violate("C20", "C20/too-many-idle", "Stats(%s) reports %d idle connections at quiescence, max_idle=%d", b, idle, maxIdle)
			}
		}
	}, onErr)
	if shutdownAtEnd && !x.dead {
		x.Do("shutdown", func() { pool.Shutdown() }, onErr)
		// every connection the harness knows to be idle in the pool must be closed now
		mu.Lock()
		leaked := 0
		for id, ci := range info {
			if ci.state == stIdle && !all[id].isClosed() {
				leaked++
			}
		}
		mu.Unlock()
		if leaked > 0 {
			x.Violate("C20", "C20/shutdown-left-connections-open", "%d idle pooled connections are still open after Shutdown", leaked)
			x.Violate("C19", "C19/pooled-connections-left-open", "%d idle pooled connections are still open after the pool's Shutdown (what LoadBalancer.Stop calls)", leaked)
		}
		x.Do("get-after-shutdown", func() {
			for _, b := range backends {
				if conn := pool.Get(b); conn != nil {
					x.Violate("C20", "C20/get-after-shutdown", "Get(%s) returned a connection after Shutdown", b)
				}
			}
		}, onErr)
		x.Probe("shutdown")
	}
	x.State(fmt.Sprint(maxIdle), fmt.Sprint(len(info)))
	s.Teardown()
}

func connID(c net.Conn) string {
	if c == nil {
		return "nil"
	}
	return fmt.Sprintf("#%d", c.(*fakeConn).id)
}
