package main

// Shared micro-sim harness for the load balancer: the real
// loadbalancer.LoadBalancer (and optionally the real handler chain from
// buildHandler) runs under the seeded scheduler; backend connections are
// scripted RoundTrippers behind the WrapTransport / WrapClient seams and the
// front is an in-memory ResponseWriter.

import (
	"net/textproto"
	"net/http/httptrace"
	"bytes"
	"context"
	"errors"
	"fmt"
	"io"
	"net"
	"net/http"
	"sort"
	"strings"
	"sync"
	"time"

	"github.com/0xReLogic/Helios/internal/config"
	"github.com/0xReLogic/Helios/internal/loadbalancer"
	"vsim/simrt"
)

// ---------------------------------------------------------------------------
// scripted backends

type stubBackend struct {
	name string
	host string // host:port as it appears in the backend URL
	base string // base path of the backend URL ("" or "/api")

	// behaviour, set by the driver (root) between scheduler runs or by plans
	mode      string        // ok | s500 | s502 | s504 | s404 | unreach | abort
	delay     time.Duration // time the backend takes before answering
	probeMode string        // ok | status | conn | slow
	probeSlow time.Duration

	// tallies (protected by stubNet.mu)
	dispatched int
	inflight   int
	probes     int
	lastProbe  time.Duration
	removed    bool
}

type reqPlan struct {
	id       int
	hold     bool // block inside the backend until released
	released bool
	mode     string // overrides backend mode when non-empty
	delay    time.Duration
	body     []byte
	interim  []int // informational responses (103 Early Hints ...) the backend sends before its final answer
}

type lbEvent struct {
	seq     uint64
	at      time.Duration
	kind    string // inv | dispatch | answered | ret | probe
	req     int
	backend string
	status  int
	note    string
}

type stubNet struct {
	x          *X
	interimAll []int // every backend of this run sends these informational responses before each final answer
	mu     sync.Mutex
	byHost map[string]*stubBackend
	byName map[string]*stubBackend
	order  []*stubBackend
	plans  map[int]*reqPlan
	events []lbEvent
	nextID int
	probePath string
}

func newStubNet(x *X) *stubNet {
	n := &stubNet{x: x, byHost: map[string]*stubBackend{}, byName: map[string]*stubBackend{}, plans: map[int]*reqPlan{}}
	simrt.SetRoundTripHook(n.roundTrip)
	return n
}

func (n *stubNet) add(name, host, base string) *stubBackend {
	b := &stubBackend{name: name, host: host, base: base, mode: "ok", probeMode: "ok"}
	n.mu.Lock()
	n.byHost[host] = b
	n.byName[name] = b
	n.order = append(n.order, b)
	n.mu.Unlock()
	return b
}

func (n *stubNet) ev(kind string, req int, backend string, status int, note string) lbEvent {
	e := lbEvent{seq: n.x.Seq(), at: n.x.Now(), kind: kind, req: req, backend: backend, status: status, note: note}
	n.mu.Lock()
	n.events = append(n.events, e)
	n.mu.Unlock()
	n.x.Logf("ev %d t=%v %s req=%d be=%s st=%d %s", e.seq, e.at, kind, req, backend, status, note)
	return e
}

func statusOfMode(mode string) int {
	switch mode {
	case "s500":
		return 500
	case "s502":
		return 502
	case "s504":
		return 504
	case "s404":
		return 404
	case "s204":
		return 204
	case "s429": // the backend's own throttling: an answer like any other 4xx, not Helios' limiter
		return 429
	case "s503": // the backend's own "unavailable": a failed response, not Helios' "no healthy backend"
		return 503
	case "s401":
		return 401
	}
	return 200
}

type errReader struct {
	data []byte
	err  error
}

func (e *errReader) Read(p []byte) (int, error) {
	if len(e.data) > 0 {
		k := copy(p, e.data)
		e.data = e.data[k:]
		return k, nil
	}
	return 0, e.err
}
func (e *errReader) Close() error { return nil }

func reqIDOf(r *http.Request) int {
	var id int
	fmt.Sscanf(r.Header.Get("X-Sim-Req"), "%d", &id)
	return id
}

// roundTrip is what every backend "connection" does in micro-sim.
func (n *stubNet) roundTrip(real *http.Transport, r *http.Request) (*http.Response, error) {
	n.mu.Lock()
	b := n.byHost[r.URL.Host]
	n.mu.Unlock()
	if b == nil {
		return nil, &net.OpError{Op: "dial", Net: "tcp", Err: errors.New("sim: no such host " + r.URL.Host)}
	}
	if real == nil {
		return n.probe(b, r)
	}
	id := reqIDOf(r)
	n.mu.Lock()
	plan := n.plans[id]
	b.dispatched++
	b.inflight++
	mode, delay := b.mode, b.delay
	n.mu.Unlock()
	if plan != nil {
		if plan.mode != "" {
			mode = plan.mode
		}
		if plan.delay > 0 {
			delay = plan.delay
		}
	}
	n.ev("dispatch", id, b.name, 0, r.Method+" "+r.URL.Path)
	done := func() {
		n.mu.Lock()
		b.inflight--
		n.mu.Unlock()
	}
	if err := r.Context().Err(); err != nil {
		// (net/http's transport gives up at once on a request whose context is already over)
		done()
		n.ev("answered", id, b.name, 0, "ctx-cancelled")
		return nil, err
	}
	if plan != nil && plan.hold {
		simrt.Block("hold", func() bool { n.mu.Lock(); defer n.mu.Unlock(); return plan.released })
	}
	if delay > 0 {
		select {
		case <-r.Context().Done():
			simrt.Yield("woke")
			done()
			n.ev("answered", id, b.name, 0, "ctx-cancelled")
			return nil, r.Context().Err()
		case <-time.After(delay):
			simrt.Yield("woke")
		}
	}
	// consume the request body like a server would
	if r.Body != nil {
		io.Copy(io.Discard, r.Body)
		r.Body.Close()
	}
	switch mode {
	case "unreach":
		done()
		n.ev("answered", id, b.name, 0, "unreachable")
		return nil, &net.OpError{Op: "dial", Net: "tcp", Err: errors.New("connection refused")}
	case "abort":
		done()
		n.ev("answered", id, b.name, 200, "abort-mid-body")
		h := http.Header{"Content-Type": {"text/plain"}}
		return &http.Response{StatusCode: 200, Status: "200 OK", Proto: "HTTP/1.1", ProtoMajor: 1, ProtoMinor: 1, Header: h,
			Body: &errReader{data: []byte("partial"), err: io.ErrUnexpectedEOF}, ContentLength: 100, Request: r}, nil
	}
	interim := n.interimAll
	if plan != nil && len(plan.interim) > 0 {
		interim = plan.interim
	}
	if len(interim) > 0 {
		// what net/http's transport does on reading a 1xx: it hands it to the request's client
		// trace (the reverse proxy has installed one that relays it to the client)
		if tr := httptrace.ContextClientTrace(r.Context()); tr != nil && tr.Got1xxResponse != nil {
			for _, code := range interim {
				if err := tr.Got1xxResponse(code, textproto.MIMEHeader{"Link": {"</style.css>; rel=preload; as=style"}}); err != nil {
					done()
					n.ev("answered", id, b.name, 0, "interim-relay-failed")
					return nil, err
				}
			}
		}
	}
	st := statusOfMode(mode)
	body := []byte("hello from " + b.name)
	if plan != nil && plan.body != nil {
		body = plan.body
	}
	if st == 204 {
		body = nil
	}
	h := http.Header{"Content-Type": {"text/plain"}, "X-Backend": {b.name}}
	done()
	n.ev("answered", id, b.name, st, "")
	return &http.Response{StatusCode: st, Status: fmt.Sprintf("%d %s", st, http.StatusText(st)), Proto: "HTTP/1.1", ProtoMajor: 1, ProtoMinor: 1,
		Header: h, Body: io.NopCloser(bytes.NewReader(body)), ContentLength: int64(len(body)), Request: r}, nil
}

func (n *stubNet) probe(b *stubBackend, r *http.Request) (*http.Response, error) {
	n.mu.Lock()
	b.probes++
	b.lastProbe = n.x.Now()
	pm, slow := b.probeMode, b.probeSlow
	n.mu.Unlock()
	// (the event carries how slow THIS probe is, in ms: the endpoint's behaviour may be changed
	// again before an oracle gets to look at the event)
	n.ev("probe", 0, b.name, int(slow/time.Millisecond), pm)
	if pm == "slow" {
		select {
		case <-r.Context().Done():
			simrt.Yield("woke")
			return nil, r.Context().Err()
		case <-time.After(slow):
			simrt.Yield("woke")
		}
	}
	switch pm {
	case "conn":
		return nil, &net.OpError{Op: "dial", Net: "tcp", Err: errors.New("connection refused")}
	case "status4xx": // the health path is gone / asks for credentials: not a passing probe either
		return &http.Response{StatusCode: 404, Status: "404 Not Found", Proto: "HTTP/1.1", ProtoMajor: 1, ProtoMinor: 1, Header: http.Header{}, Body: io.NopCloser(strings.NewReader("no such path")), Request: r}, nil
	case "status":
		return &http.Response{StatusCode: 503, Status: "503 Service Unavailable", Proto: "HTTP/1.1", ProtoMajor: 1, ProtoMinor: 1, Header: http.Header{}, Body: io.NopCloser(strings.NewReader("down")), Request: r}, nil
	}
	return &http.Response{StatusCode: 200, Status: "200 OK", Proto: "HTTP/1.1", ProtoMajor: 1, ProtoMinor: 1, Header: http.Header{}, Body: io.NopCloser(strings.NewReader("ok")), Request: r}, nil
}

// dispatchedTo names the backend request id was dispatched to ("" if none). It looks from the
// newest event backwards and copies nothing: scenarios ask after every request, and a copy of a list
// that grows with every request makes a long run quadratic.
func (n *stubNet) dispatchedTo(id int) string {
	n.mu.Lock()
	defer n.mu.Unlock()
	for i := len(n.events) - 1; i >= 0; i-- {
		if e := &n.events[i]; e.kind == "dispatch" && e.req == id {
			return e.backend
		}
	}
	return ""
}

// snapshot returns a copy of the event list.
func (n *stubNet) snapshot() []lbEvent {
	n.mu.Lock()
	defer n.mu.Unlock()
	return append([]lbEvent{}, n.events...)
}

// ---------------------------------------------------------------------------
// in-memory front

type recorder struct {
	hdr      http.Header
	status   int
	wrote    bool
	sentHdr  http.Header
	body     bytes.Buffer
	flushes  int
	informal []int
}

func newRecorder() *recorder { return &recorder{hdr: http.Header{}} }

func (r *recorder) Header() http.Header { return r.hdr }
func (r *recorder) WriteHeader(code int) {
	if code >= 100 && code < 200 {
		r.informal = append(r.informal, code)
		return
	}
	if r.wrote {
		return
	}
	r.wrote = true
	r.status = code
	r.sentHdr = r.hdr.Clone()
}
func (r *recorder) Write(p []byte) (int, error) {
	if !r.wrote {
		r.WriteHeader(200)
	}
	return r.body.Write(p)
}
func (r *recorder) Flush() {
	if !r.wrote {
		r.WriteHeader(200)
	}
	r.flushes++
}

type simResult struct {
	id      int
	status  int
	body    string
	header  http.Header
	aborted bool // ErrAbortHandler, as net/http's conn.serve would swallow
	panicV  any
}

// ---------------------------------------------------------------------------
// LB harness

type lbHarness struct {
	x       *X
	net     *stubNet
	cfg     *config.Config
	lb      *loadbalancer.LoadBalancer
	handler http.Handler
	reached int // requests handed to the handler
}

type reqSpec struct {
	client string // RemoteAddr host
	xff    string
	xreal  string
	method string
	path   string
	plan   *reqPlan
	hdr    map[string]string
	cancelAfter time.Duration // > 0: the client goes away (request context cancelled) after this long
	port        int           // > 0: the peer's source port (a kept-alive connection is one ip:port for many requests)
	eitherHeader bool         // (lbaff) the address in xff is sent as X-Forwarded-For or as X-Real-IP, alternating
	preCancelled bool         // the client is gone before the request reaches the balancer (context already cancelled)
}

// newRequest builds the request a net/http server would hand to the handler.
func (h *lbHarness) newRequest(spec reqSpec) (*http.Request, int) {
	h.net.mu.Lock()
	h.net.nextID++
	id := h.net.nextID
	if spec.plan != nil {
		spec.plan.id = id
		h.net.plans[id] = spec.plan
	}
	h.net.mu.Unlock()
	m := spec.method
	if m == "" {
		m = "GET"
	}
	p := spec.path
	if p == "" {
		p = "/"
	}
	ctx := context.WithValue(context.Background(), http.ServerContextKey, &http.Server{})
	if spec.cancelAfter > 0 {
		var cancel context.CancelFunc
		ctx, cancel = context.WithCancel(ctx)
		time.AfterFunc(spec.cancelAfter, cancel)
	}
	if spec.preCancelled {
		var cancel context.CancelFunc
		ctx, cancel = context.WithCancel(ctx)
		cancel()
	}
	r, err := http.NewRequestWithContext(ctx, m, "http://helios.test"+p, nil)
	if err != nil {
		panic(err)
	}
	r.RequestURI = p
	client := spec.client
	if client == "" {
		client = "192.0.2.1"
	}
	// every request comes from another source port (a new connection), as real clients do
	port := 40000 + (id*7919)%20000
	if spec.port > 0 {
		port = spec.port
	}
	if strings.Contains(client, ":") && !strings.HasPrefix(client, "[") {
		r.RemoteAddr = fmt.Sprintf("[%s]:%d", client, port)
	} else {
		r.RemoteAddr = fmt.Sprintf("%s:%d", client, port)
	}
	if spec.xff != "" {
		r.Header.Set("X-Forwarded-For", spec.xff)
	}
	if spec.xreal != "" {
		r.Header.Set("X-Real-IP", spec.xreal)
	}
	for k, v := range spec.hdr {
		r.Header.Set(k, v)
	}
	r.Header.Set("X-Sim-Req", fmt.Sprint(id))
	return r, id
}

// do performs one request through the handler. Must run inside a task.
func (h *lbHarness) do(spec reqSpec) (res simResult) {
	r, id := h.newRequest(spec)
	res.id = id
	rec := newRecorder()
	h.x.mu.Lock()
	h.reached++
	h.x.mu.Unlock()
	h.net.ev("inv", id, "", 0, "client="+spec.client+" xff="+spec.xff)
	defer func() {
		if p := recover(); p != nil {
			if p == http.ErrAbortHandler {
				res.aborted = true
			} else {
				res.panicV = p
				h.x.Violate("C03", "C03/handler-panic", "request %d panicked: %v", id, p)
				h.x.Violate("C12", "C12/panic{handler}", "request %d panicked: %v", id, p)
			}
		}
		res.status = rec.status
		res.body = rec.body.String()
		res.header = rec.sentHdr
		note := ""
		if res.aborted {
			note = "aborted"
		}
		h.net.ev("ret", id, "", rec.status, note)
	}()
	h.handler.ServeHTTP(rec, r)
	return res
}

type lbOpts struct {
	strategy        string
	backends        []config.BackendConfig
	passive         bool
	threshold       int
	window          int // seconds
	active          bool
	interval        int
	timeout         int
	breaker         *config.CircuitBreakerConfig
	limiter         *config.RateLimitConfig
	fullChain       bool
	plugins         []config.PluginConfig
	logging         config.LoggingConfig
	wsPool          bool
	handlerTimeout  int // server.timeouts.handler in seconds (with fullChain: the end-to-end request deadline)
}

var strategies = []string{"round_robin", "least_connections", "weighted_round_robin", "ip_hash", "ip_hash_consistent"}

// newLBHarness builds the configuration and the balancer. Must run inside a task.
func newLBHarness(x *X, net *stubNet, o lbOpts) (*lbHarness, error) {
	cfg := &config.Config{}
	cfg.Server.Port = 8080
	cfg.Backends = o.backends
	cfg.LoadBalancer.Strategy = o.strategy
	cfg.HealthChecks.Passive = config.PassiveHealthCheckConfig{Enabled: o.passive, UnhealthyThreshold: o.threshold, UnhealthyTimeout: o.window}
	cfg.HealthChecks.Active = config.ActiveHealthCheckConfig{Enabled: o.active, Interval: o.interval, Timeout: o.timeout, Path: "/healthz"}
	if !o.passive {
		// the window is still what a failed probe uses
		cfg.HealthChecks.Passive.UnhealthyTimeout = o.window
	}
	if o.breaker != nil {
		cfg.CircuitBreaker = *o.breaker
	}
	if o.limiter != nil {
		cfg.RateLimit = *o.limiter
	}
	cfg.LoadBalancer.WebSocketPool.Enabled = o.wsPool
	cfg.Server.Timeouts.Handler = o.handlerTimeout
	cfg.Logging = o.logging
	cfg.Logging.Level = "fatal"
	if len(o.plugins) > 0 {
		cfg.Plugins.Enabled = true
		cfg.Plugins.Chain = o.plugins
	}
	net.probePath = "/healthz"
	lb, err := loadbalancer.NewLoadBalancer(cfg)
	if err != nil {
		return nil, err
	}
	h := &lbHarness{x: x, net: net, cfg: cfg, lb: lb, handler: lb}
	if o.fullChain {
		hd, err := buildHandler(cfg, lb)
		if err != nil {
			return nil, err
		}
		h.handler = hd
	}
	return h, nil
}

// healthSnapshot reads ListBackends through the public API. Must run inside a task.
func (h *lbHarness) healthSnapshot() map[string]bool {
	m := map[string]bool{}
	for _, bi := range h.lb.ListBackends() {
		m[bi.Name] = bi.Healthy
	}
	return m
}

func sortedKeys[V any](m map[string]V) []string {
	ks := make([]string, 0, len(m))
	for k := range m {
		ks = append(ks, k)
	}
	sort.Strings(ks)
	return ks
}
