package main

// Scenarios "rl" (token bucket component) and "rllb" (limiter wired in the
// balancer) for C09: per-client bound over every pair of admissions, burst
// bound at one instant, full first burst, refill after idling, isolation by
// differential execution (the same arrivals for one client against a second
// limiter that sees nobody else), 429 + not forwarded + counted, client key
// precedence.

import (
	"fmt"
	"sort"
	"time"

	"github.com/0xReLogic/Helios/internal/config"
	"github.com/0xReLogic/Helios/internal/ratelimiter"
	"vsim/simrt"
)

func init() {
	register(&Scenario{Name: "rl", Props: []string{"C09"}, Kind: "micro", Run: runRL})
	register(&Scenario{Name: "rllb", Props: []string{"C09"}, Kind: "micro", Run: runRLLB})
}

type rlOp struct {
	kind  string // allow | burst | sleep
	n     int
	d     time.Duration
}

type rlEvent struct {
	seq     uint64
	at      time.Duration
	client  string
	allowed bool
}

func runRL(x *X) {
	c := x.C
	max := 1 + c.Intn(5, "max")
	refills := []time.Duration{time.Second, 2 * time.Second, 7 * time.Second, time.Minute, 20 * time.Minute, time.Hour, 2 * time.Hour}
	refill := refills[c.Intn(len(refills), "refill")]
	nClients := 1 + c.Intn(4, "clients")
	names := []string{"A", "B", "C", "D"}[:nClients]
	maxOps := 8
	if x.Tier == "thorough" {
		maxOps = 16
	}
	drawScript := func(allowBurst bool) []rlOp {
		n := 1 + c.Intn(maxOps, "nops")
		var ops []rlOp
		for i := 0; i < n; i++ {
			switch c.Pick([]int{5, 3, 4}, "op") {
			case 0:
				ops = append(ops, rlOp{kind: "allow", n: 1 + c.Intn(max+2, "k")})
			case 1:
				if allowBurst {
					k := 2 + c.Intn(7, "burst")
					if x.Tier == "thorough" && c.Intn(4, "big") == 0 {
						k = 8 + c.Intn(57, "burst64")
					}
					ops = append(ops, rlOp{kind: "burst", n: k})
				} else {
					ops = append(ops, rlOp{kind: "allow", n: 1 + c.Intn(max+2, "k")})
				}
			case 2:
				var d time.Duration
				switch c.Intn(9, "dt") {
				case 0:
					d = refill / 2
				case 1:
					d = refill
				case 2:
					d = refill + time.Millisecond
				case 3:
					d = refill - time.Millisecond
				case 4:
					d = time.Duration(2+c.Intn(4, "mult")) * refill
				case 5:
					d = 61 * time.Minute // beyond the hourly bucket expiry
				case 6:
					d = 10 * time.Minute
				case 7:
					d = refill / 4
				case 8:
					d = 3 * time.Hour
				}
				ops = append(ops, rlOp{kind: "sleep", d: d})
			}
		}
		return ops
	}
	scripts := map[string][]rlOp{}
	for i, n := range names {
		scripts[n] = drawScript(i != 0) // client A stays sequential (differential oracle)
	}
	if nClients > 1 && c.Intn(8, "steady-polling") == 0 {
		gap := []time.Duration{time.Millisecond, 5 * time.Millisecond, 15 * time.Millisecond, refill / 20}[c.Intn(4, "poll-gap")]
		if gap >= refill {
			gap = refill / 2
		}
		scripts[names[nClients-1]] = []rlOp{{kind: "allow", n: max + 1}, {kind: "poll", n: 60 + c.Intn(120, "polls"), d: refill - gap}}
	}
	var second []rlOp // a second concurrent task for one of the other clients
	secondFor := ""
	if nClients > 1 && c.Intn(2, "second") == 1 {
		secondFor = names[1+c.Intn(nClients-1, "secondfor")]
		second = drawScript(true)
	}
	x.Sample["config"] = fmt.Sprintf("max_tokens=%d refill=%v clients=%v", max, refill, names)
	desc := map[string]string{}
	for n, sc := range scripts {
		d := ""
		for _, op := range sc {
			if op.kind == "sleep" {
				d += fmt.Sprintf("sleep(%v) ", op.d)
			} else if op.kind == "poll" {
				d += fmt.Sprintf("poll(%d every %v) ", op.n, op.d)
			} else {
				d += fmt.Sprintf("%s(%d) ", op.kind, op.n)
			}
		}
		desc[n] = d
	}
	x.Sample["scripts"] = desc
	x.Logf("rl %s %v", x.Sample["config"], desc)

	s := x.StartMicro()
	onErr := func(e *simrt.SchedError) {
		x.Violate("C12", "C12/"+e.Kind+"{rl}", "%s", e.Error())
		x.Blocked(e, "rl")
	}
	var l1, l2 *ratelimiter.TokenBucketRateLimiter
	x.Do("setup", func() {
		l1 = ratelimiter.NewTokenBucketRateLimiter(max, refill)
		l2 = ratelimiter.NewTokenBucketRateLimiter(max, refill)
	}, onErr)
	var evs []rlEvent
	rec := func(client string, ok bool) {
		e := rlEvent{seq: x.Seq(), at: x.Now(), client: client, allowed: ok}
		x.mu.Lock()
		evs = append(evs, e)
		x.mu.Unlock()
		x.Logf("allow %d t=%v %s -> %v", e.seq, e.at, client, ok)
	}
	runScript := func(client string, ops []rlOp, differential bool) {
		for _, op := range ops {
			switch op.kind {
			case "sleep":
				TaskSleep(op.d)
			case "allow":
				for i := 0; i < op.n; i++ {
					ok := l1.Allow(client)
					rec(client, ok)
					if differential {
						ok2 := l2.Allow(client)
						if ok2 != ok {
							x.Violate("C09", "C09/isolation-broken", "client %s at t=%v: allowed=%v with other clients present, allowed=%v alone", client, x.Now(), ok, ok2)
						}
					}
				}
			case "poll":
				// steady polling just under the refill period: any per-refill rounding in the
				// client's favour adds up over many periods
				for i := 0; i < op.n; i++ {
					TaskSleep(op.d)
					ok := l1.Allow(client)
					rec(client, ok)
				}
				x.Probe("steady-polling")
			case "burst":
				done := 0
				for i := 0; i < op.n; i++ {
					s.Spawn("burst-"+client, func() {
						ok := l1.Allow(client)
						rec(client, ok)
						x.mu.Lock()
						done++
						x.mu.Unlock()
					})
				}
				simrt.Block("burst-join", func() bool { x.mu.Lock(); defer x.mu.Unlock(); return done == op.n })
				x.Probe("concurrent-burst")
			}
		}
	}
	// every client starts off the 10-minute grid of the limiters' cleanup tickers, so that
	// no arrival ever ties with a cleanup tick (a tie would make the differential oracle
	// depend on which limiter's cleanup runs first, which has nothing to do with isolation)
	for i, n := range names {
		name := n
		off := time.Duration(i+1) * 137 * time.Millisecond
		s.Spawn("client-"+name, func() { TaskSleep(off); runScript(name, scripts[name], name == "A") })
	}
	if secondFor != "" {
		s.Spawn("client2-"+secondFor, func() { TaskSleep(911 * time.Millisecond); runScript(secondFor, second, false) })
	}
	if !x.RunTasks(onErr) {
		s.Teardown()
		return
	}
	// Biased closing pattern (sequential, so every oracle below still applies): a client
	// drains its bucket, everybody idles past the bucket expiry (a cleanup tick runs), the
	// same client is the first one back, another client shows up, the first one bursts again.
	if nClients >= 2 && c.Intn(2, "expiry-pattern") == 1 {
		one := func(client string, n int, differential bool) {
			x.Do("pattern", func() { runScript(client, []rlOp{{kind: "allow", n: n}}, differential) }, onErr)
		}
		idle := time.Hour
		if full := time.Duration(max) * refill; full > idle {
			idle = full
		}
		one("A", max+1, true)
		x.Advance(idle+11*time.Minute+173*time.Millisecond, onErr)
		one("A", 1+c.Intn(max, "pattern-k"), true)
		one("B", 1, false)
		one("A", max+1, true)
		x.Probe("expiry-pattern")
	}

	// Biased closing pattern: a client that uses only part of its burst, idles for a few refill
	// periods and then bursts: what it had left and what the idle time earned are capped together.
	if max >= 2 && c.Intn(3, "partial-idle-burst") == 0 && !x.dead {
		client := names[c.Intn(nClients, "partial-client")]
		k := 1 + c.Intn(max-1, "partial-k")
		m := 2 + c.Intn(4, "partial-idle-periods")
		x.Do("pattern", func() {
			runScript(client, []rlOp{{kind: "sleep", d: time.Duration(max+1) * refill}, {kind: "allow", n: k},
				{kind: "sleep", d: time.Duration(m)*refill + time.Millisecond}, {kind: "allow", n: max + 2}}, false)
		}, onErr)
		x.Probe("partial-idle-burst")
	}

	// Biased closing pattern: a client that has been away long enough for its bucket to be
	// dropped comes back at the very instant of a cleanup tick -- its requests interleave with the
	// sweep that is deciding about its bucket. (Only the limiter under test is asked: a tie
	// with a tick would make the differential oracle depend on which limiter sweeps first.)
	if c.Intn(3, "return-at-cleanup-tick") == 0 && !x.dead {
		client := names[c.Intn(nClients, "returning-client")]
		x.Do("pattern", func() { runScript(client, []rlOp{{kind: "allow", n: max + 1}}, false) }, onErr)
		idle := time.Hour
		if full := time.Duration(max) * refill; full > idle {
			idle = full
		}
		const tick = 10 * time.Minute
		target := (x.Now() + idle + tick) / tick * tick
		tasks := 1 + c.Intn(2, "returning-tasks")
		// either more requests than the allowance (none too many may pass) or exactly the allowance
		// (none may be turned away)
		exact := c.Intn(2, "returning-asks-exactly-the-allowance") == 1
		for j := 0; j < tasks; j++ {
			n := max + 1
			if exact {
				n = max / tasks
				if j == 0 {
					n += max % tasks
				}
			}
			if n == 0 {
				continue
			}
			s.Spawn("returning-"+client, func() {
				TaskSleep(target - x.Now())
				runScript(client, []rlOp{{kind: "allow", n: n}}, false)
			})
		}
		x.RunTasks(onErr)
		x.Probe("return-at-cleanup-tick")
		// whatever the sweep decides about the bucket at that instant, the client has been away long
		// enough for a full allowance: of its requests at the tick exactly max_tokens are admitted
		// (not more: the all-pairs bound below; not fewer: here)
		if !x.dead {
			x.mu.Lock()
			adm, asked := 0, 0
			for _, e := range evs {
				if e.client == client && e.at == target {
					asked++
					if e.allowed {
						adm++
					}
				}
			}
			x.mu.Unlock()
			if asked >= max && adm < max {
				x.Violate("C09", "C09/refill-missing{return-at-cleanup-tick}", "client %s had been idle for %v (max_tokens %d, refill %v) and came back at the instant of a cleanup tick (t=%v) with %d requests from %d task(s): only %d were admitted", client, idle, max, refill, target, asked, tasks, adm)
			}
		}
	}

	// Biased closing pattern (rare: it is expensive): a flood of one-off clients -- an address scan,
	// spoofed X-Forwarded-For values -- and a cleanup tick after it. What the flood does to the table
	// is the limiter's business; a client that had spent its burst before is no better off for it.
	floodOdds := 150
	if x.Tier == "thorough" {
		floodOdds = 40
	}
	if !x.dead && max >= 2 && time.Duration(max)*refill > 30*time.Minute && c.Intn(floodOdds, "flood-of-clients") == 0 {
		victim := names[c.Intn(nClients, "flood-victim")]
		s.StepLimit *= 30
		x.Do("pattern", func() { runScript(victim, []rlOp{{kind: "allow", n: max + 1}}, false) }, onErr)
		x.Advance(time.Minute, onErr)
		nFlood := 66000 + c.Intn(3000, "flood-n")
		x.Do("flood", func() {
			for i := 0; i < nFlood; i++ {
				l1.Allow(fmt.Sprintf("198.18.%d.%d#%d", i>>8&255, i&255, i>>16))
			}
		}, onErr)
		x.Advance(21*time.Minute, onErr)
		x.Do("pattern", func() { runScript(victim, []rlOp{{kind: "allow", n: max + 1}}, false) }, onErr)
		x.Fault("flood-of-clients")
		x.Probe("flood-then-cleanup")
	}

	// Biased closing pattern: callers that lose the CPU inside the limiter (the stall fault: a task is
	// descheduled at a lock or yield point for a refill period or more while the clock and the other
	// callers go on). A separate limiter, one client, two or three tasks; every call is an interval
	// (invoked, returned) of virtual time, and the burst bound is judged over intervals: the
	// admissions of any set of calls lie between its earliest invocation and its latest return.
	if !x.dead && c.Intn(3, "stalled-callers") == 0 {
		var l3 *ratelimiter.TokenBucketRateLimiter
		x.Do("setup", func() { l3 = ratelimiter.NewTokenBucketRateLimiter(max, refill) }, onErr)
		type ivl struct {
			inv, ret time.Duration
			ok       bool
		}
		var ivs []ivl
		call := func() {
			inv := x.Now()
			ok := l3.Allow("S")
			ret := x.Now()
			x.mu.Lock()
			ivs = append(ivs, ivl{inv, ret, ok})
			x.mu.Unlock()
		}
		x.EnableStalls(6, 3, refill/2, refill+time.Millisecond, 3*refill)
		nT := 2 + c.Intn(2, "stalled-tasks")
		for t := 0; t < nT; t++ {
			off := time.Duration(c.Intn(3, "stalled-off")) * refill / 2
			rounds := 2 + c.Intn(3, "stalled-rounds")
			s.Spawn("stalled-S", func() {
				TaskSleep(off)
				for r := 0; r < rounds; r++ {
					for i := 0; i < max+1; i++ {
						call()
					}
					TaskSleep(refill + time.Millisecond)
				}
			})
		}
		x.RunTasks(onErr)
		x.S.StallDenom = 0
		x.Do("pattern", func() {
			for i := 0; i < max+1; i++ {
				call()
			}
		}, onErr)
		if !x.dead {
			var adm []ivl
			for _, v := range ivs {
				if v.ok {
					adm = append(adm, v)
				}
			}
			sort.SliceStable(adm, func(i, j int) bool { return adm[i].ret < adm[j].ret })
		outer:
			for i := 0; i < len(adm); i++ {
				lo := adm[i].inv
				for j := i; j < len(adm); j++ {
					// admissions i..j (by return time): all of them happened between the earliest
					// invocation among them and adm[j]'s return
					if adm[j].inv < lo {
						lo = adm[j].inv
					}
					T := adm[j].ret - lo
					if bound := max + int(T/refill) + 1; j-i+1 > bound {
						x.Violate("C09", "C09/bound-exceeded{stalled-callers}", "one client, %d tasks, some of them descheduled inside the limiter: %d calls admitted that all ran between t=%v and t=%v (T=%v), bound max_tokens(%d)+floor(T/refill %v)+1 = %d", nT, j-i+1, lo, adm[j].ret, T, max, refill, bound)
						break outer
					}
				}
			}
			x.Probe("stalled-callers")
		}
	}

	// ---- oracles over the history ----------------------------------------------
	per := map[string][]rlEvent{}
	for _, e := range evs {
		per[e.client] = append(per[e.client], e)
	}
	for _, name := range names {
		h := per[name]
		var adm []rlEvent
		for _, e := range h {
			if e.allowed {
				adm = append(adm, e)
			}
		}
		// every pair of admissions
		for i := 0; i < len(adm); i++ {
			for j := i; j < len(adm); j++ {
				T := adm[j].at - adm[i].at
				bound := max + int(T/refill) + 1
				if T == 0 {
					bound = max
				}
				if j-i+1 > bound {
					cause := "window"
					if T == 0 {
						cause = "same-instant"
					}
					if T > time.Hour {
						// only here can the hourly expiry of idle buckets have been involved
						cause = "across-idle-bucket-expiry"
					}
					x.Violate("C09", "C09/bound-exceeded{"+cause+"}", "client %s: %d requests admitted between t=%v and t=%v (T=%v), bound max_tokens(%d)+floor(T/refill %v)+1 = %d", name, j-i+1, adm[i].at, adm[j].at, T, max, refill, bound)
					i, j = len(adm), len(adm)
				}
			}
		}
		// first burst is full: the first min(max, n0) requests at the first instant are admitted
		if len(h) > 0 {
			t0 := h[0].at
			n0, a0 := 0, 0
			for _, e := range h {
				if e.at == t0 {
					n0++
					if e.allowed {
						a0++
					}
				}
			}
			want := n0
			if want > max {
				want = max
			}
			if a0 < want {
				x.Violate("C09", "C09/first-burst-not-full", "new client %s made %d requests at t=%v and only %d were admitted (max_tokens %d)", name, n0, t0, a0, max)
			}
		}
		// refill after idling: group by instant
		type grp struct {
			at    time.Duration
			n, ok int
		}
		var gs []grp
		for _, e := range h {
			if len(gs) == 0 || gs[len(gs)-1].at != e.at {
				gs = append(gs, grp{at: e.at})
			}
			gs[len(gs)-1].n++
			if e.allowed {
				gs[len(gs)-1].ok++
			}
		}
		for i := 1; i < len(gs); i++ {
			k := int((gs[i].at - gs[i-1].at) / refill)
			if k < 1 {
				continue
			}
			want := k
			if want > max {
				want = max
			}
			if want > gs[i].n {
				want = gs[i].n
			}
			if gs[i].ok < want {
				x.Violate("C09", "C09/refill-missing", "client %s idled %v (= %d refill periods of %v) and then only %d of %d requests were admitted at t=%v (expected at least %d)", name, gs[i].at-gs[i-1].at, k, refill, gs[i].ok, gs[i].n, gs[i].at, want)
			}
			if gs[i].at-gs[i-1].at > time.Hour {
				x.Probe("idle-beyond-bucket-expiry")
			}
		}
	}
	x.State(fmt.Sprint(max, refill), fmt.Sprint(len(evs)))
	if left := s.Teardown(); left > 0 {
		x.Probe("teardown-left")
	}
}

// ---------------------------------------------------------------------------

func runRLLB(x *X) {
	c := x.C
	max := 1 + c.Intn(4, "max")
	refillS := 1 + c.Intn(10, "refill")
	strategy := strategies[c.Intn(5, "strategy")]
	s := x.StartMicro()
	net := newStubNet(x)
	var bcs []config.BackendConfig
	for i := 0; i < 2; i++ {
		net.add(fmt.Sprintf("b%d", i), x.BackendHost(6, i+1), "")
		bcs = append(bcs, config.BackendConfig{Name: fmt.Sprintf("b%d", i), Address: "http://" + x.BackendHost(6, i+1), Weight: 1})
	}
	onErr := func(e *simrt.SchedError) {
		x.Violate("C12", "C12/"+e.Kind+"{rllb}", "%s", e.Error())
		x.Blocked(e, "rllb")
	}
	var h *lbHarness
	x.Do("setup", func() {
		h, _ = newLBHarness(x, net, lbOpts{strategy: strategy, backends: bcs, limiter: &config.RateLimitConfig{Enabled: true, MaxTokens: max, RefillRate: refillS}})
	}, onErr)
	if h == nil {
		s.Teardown()
		return
	}
	x.Sample["config"] = fmt.Sprintf("strategy=%s max_tokens=%d refill=%ds", strategy, max, refillS)
	x.Logf("rllb %s", x.Sample["config"])
	// identities that must share / not share a bucket, by the documented precedence
	// (first X-Forwarded-For element, then X-Real-IP, then the peer address)
	// the client under test and its nearest neighbours (addresses that differ in the last group
	// only must still be different clients), in IPv4 and IPv6 spellings
	// (the last two families are long spellings: a fully written IPv4-mapped address, a
	// link-local address with a long zone -- neighbours agree in everything but the tail)
	fam := c.Intn(5, "addr-family")
	K := []string{"203.0.113.77", "2001:db8::1", "2001:db8:0:7:a:b:c:d1", "0000:0000:0000:0000:0000:ffff:192.168.100.101", "fe80::1234:5678:9abc:def0%enp0s31f6-vlan100"}[fam]
	N1 := []string{"203.0.113.78", "2001:db8::2", "2001:db8:0:7:a:b:c:d2", "0000:0000:0000:0000:0000:ffff:192.168.100.102", "fe80::1234:5678:9abc:def0%enp0s31f6-vlan101"}[fam]
	N2 := []string{"203.0.113.7", "2001:db8::11", "2001:db8:0:7:a:b:c:d", "0000:0000:0000:0000:0000:ffff:192.168.100.10", "fe80::1234:5678:9abc:def0%enp0s31f6-vlan10"}[fam]
	N3 := []string{"203.0.113.177", "2001:db8::1:1", "2001:db8:0:7:a:b:c:1d1", "0000:0000:0000:0000:0000:ffff:192.168.100.201", "fe80::1234:5678:9abc:def0%enp0s31f6-vlan200"}[fam]
	x.Sample["client"] = K
	type probeReq struct {
		label    string
		spec     reqSpec
		sameAsK  bool
	}
	variants := []probeReq{
		{"xff=K peer=P1", reqSpec{client: "10.0.0.1", xff: K}, true},
		{"xff=K peer=P2", reqSpec{client: "10.0.0.2", xff: K}, true},
		{"xff='K, proxy' peer=P3", reqSpec{client: "10.0.0.3", xff: K + ", 10.9.9.9"}, true},
		{"xreal=K no xff", reqSpec{client: "10.0.0.4", xreal: K}, true},
		{"peer=K", reqSpec{client: K}, true},
		{"xff=K xreal=other", reqSpec{client: "10.0.0.5", xff: K, xreal: "198.51.100.1"}, true},
		{"xff=other xreal=K", reqSpec{client: "10.0.0.6", xff: "198.51.100.2", xreal: K}, false},
		{"xff=other peer=K", reqSpec{client: K, xff: "198.51.100.3"}, false},
		{"xff='other, K'", reqSpec{client: "10.0.0.7", xff: "198.51.100.4, " + K}, false},
		{"xff=neighbour1", reqSpec{client: "10.0.0.8", xff: N1}, false},
		{"xreal=neighbour2", reqSpec{client: "10.0.0.9", xreal: N2}, false},
		{"peer=neighbour3", reqSpec{client: N3, xff: ""}, false},
	}
	dispatchedReq := func(id int) bool {
		for _, e := range net.snapshot() {
			if e.kind == "dispatch" && e.req == id {
				return true
			}
		}
		return false
	}
	var rlBefore uint64
	x.Do("m", func() { rlBefore = h.lb.GetMetricsCollector().GetMetrics().RateLimitedRequests }, onErr)
	denied := uint64(0)
	// 1. exhaust K's bucket through a drawn mix of the "same" variants
	for i := 0; i < max && !x.dead; i++ {
		var same []probeReq
		for _, v := range variants {
			if v.sameAsK {
				same = append(same, v)
			}
		}
		v := same[c.Intn(len(same), "variant")]
		var r simResult
		x.Do("req", func() { r = h.do(v.spec) }, onErr)
		if r.status != 200 {
			x.Violate("C09", "C09/first-burst-not-full", "request %d of the first burst for client %s (%s) got %d, max_tokens=%d", i+1, K, v.label, r.status, max)
		}
	}
	// 2. every "same" variant is now denied, not forwarded, counted; every "other" variant is admitted
	order := c.Intn(2, "order")
	for i := range variants {
		v := variants[i]
		if order == 1 {
			v = variants[len(variants)-1-i]
		}
		if x.dead {
			break
		}
		var r simResult
		x.Do("req", func() { r = h.do(v.spec) }, onErr)
		if v.sameAsK {
			if r.status != 429 {
				x.Violate("C09", "C09/wrong-client-key{"+v.label+"}", "client %s had spent its %d tokens; a request identified as the same client (%s) got %d instead of 429", K, max, v.label, r.status)
			} else {
				denied++
				if dispatchedReq(r.id) {
					x.Violate("C09", "C09/denied-but-forwarded", "request %d got 429 and still reached a backend", r.id)
				}
			}
		} else if r.status != 200 {
			x.Violate("C09", "C09/wrong-client-key{"+v.label+"}", "a request from a different client (%s) got %d while only %s had spent its tokens (isolation)", v.label, r.status, K)
		}
	}
	var rlAfter uint64
	x.Do("m", func() { rlAfter = h.lb.GetMetricsCollector().GetMetrics().RateLimitedRequests }, onErr)
	if !x.dead && rlAfter-rlBefore != denied {
		x.Violate("C09", "C09/denied-not-counted", "%d requests were answered 429 but rate_limited_requests grew by %d", denied, rlAfter-rlBefore)
	}
	// 3. after k refill periods min(k,max) more are admitted
	k := 1 + c.Intn(max+1, "k")
	x.Advance(time.Duration(k*refillS)*time.Second, onErr)
	want := k
	if want > max {
		want = max
	}
	got := 0
	for i := 0; i < max+1 && !x.dead; i++ {
		var r simResult
		x.Do("req", func() { r = h.do(reqSpec{client: "10.0.0.1", xff: K}) }, onErr)
		if r.status == 200 {
			got++
		}
	}
	if !x.dead {
		if got < want {
			x.Violate("C09", "C09/refill-missing", "after %d refill periods only %d more requests were admitted (expected at least %d)", k, got, want)
		}
		if got > want+1 {
			x.Violate("C09", "C09/bound-exceeded{window}", "after %d refill periods %d more requests were admitted (max_tokens %d)", k, got, max)
		}
		x.Probe("lb-level-429")
	}
	// 4. odd header shapes that still name different clients: lists whose first element is empty
	// (a front proxy appended ", <peer>" to an empty header), arriving through different peers.
	// Whatever such a client is keyed by -- the whole value, the next element, its peer -- two of
	// them are two clients: one spending its burst leaves the other's untouched.
	if !x.dead && c.Intn(3, "empty-first-element") == 0 {
		lead := []string{", ", ","}[c.Intn(2, "lead")] // (no blank before the comma: net/http's parser strips leading blanks of a value)
		a := reqSpec{client: "10.77.0.1", xff: lead + "198.51.100.7"}
		b := reqSpec{client: "10.77.0.2", xff: lead + "198.51.100.8"}
		for i := 0; i < max+1 && !x.dead; i++ {
			x.Do("req", func() { h.do(a) }, onErr)
		}
		for i := 0; i < max && !x.dead; i++ {
			var r simResult
			x.Do("req", func() { r = h.do(b) }, onErr)
			if r.status != 200 {
				x.Violate("C09", "C09/wrong-client-key{empty-first-element}", "a client never seen before (X-Forwarded-For %q via peer %s) got %d on request %d of its first burst after another client (%q via %s) had spent its own (max_tokens %d)", b.xff, b.client, r.status, i+1, a.xff, a.client, max)
				break
			}
		}
		x.Probe("empty-first-xff-element")
	}
	// 5. the limiter in front of a flapping circuit breaker: whatever state the breaker is in, a
	// client is forwarded no more often than its bucket allows (a second balancer: limiter with an
	// hour-long refill, breaker that opens on the first failure and retries every second, one
	// backend that always answers 500)
	if !x.dead && c.Intn(3, "limiter-before-flapping-breaker") == 0 {
		net5 := newStubNet(x)
		b5 := net5.add("solo", x.BackendHost(6, 9), "")
		b5.mode = "s500"
		m5 := 1 + c.Intn(3, "m5")
		var h5 *lbHarness
		x.Do("setup5", func() {
			h5, _ = newLBHarness(x, net5, lbOpts{strategy: strategy, backends: []config.BackendConfig{{Name: "solo", Address: "http://" + b5.host, Weight: 1}},
				limiter: &config.RateLimitConfig{Enabled: true, MaxTokens: m5, RefillRate: 3600},
				breaker: &config.CircuitBreakerConfig{Enabled: true, MaxRequests: 1, IntervalSeconds: 30, TimeoutSeconds: 1, FailureThreshold: 1, SuccessThreshold: 1}})
		}, onErr)
		if h5 != nil {
			var sts []int
			for k := 0; k < m5+6 && !x.dead; k++ {
				var r simResult
				x.Do("req", func() { r = h5.do(reqSpec{client: "203.0.113.99"}) }, onErr)
				sts = append(sts, r.status)
				x.Advance(1100*time.Millisecond, onErr)
			}
			forwarded := 0
			for _, e := range net5.snapshot() {
				if e.kind == "dispatch" {
					forwarded++
				}
			}
			if !x.dead && forwarded > m5+1 {
				x.Violate("C09", "C09/bound-exceeded{breaker-flapping}", "one client, max_tokens %d, refill 1h: %d requests were forwarded to the backend within %ds while the circuit breaker flapped (statuses %v)", m5, forwarded, (m5+6)*11/10, sts)
			}
			x.Probe("limiter-before-flapping-breaker")
			x.Do("stop5", func() { h5.lb.Stop() }, onErr)
		}
	}
	if left := s.Teardown(); left > 0 {
		x.Probe("teardown-left")
	}
}
