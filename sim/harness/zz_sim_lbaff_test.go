package main

// Scenario "lbaff": client affinity (ip_hash, ip_hash_consistent) and minimal
// remapping on append (ip_hash_consistent) — the history / concurrency part of
// C06 on sampled client identities. (The exhaustive 2^32 sweep of the hash step
// is a pure function and is not performed here; see DESIGN.md §4.)

import (
	"strings"
	"fmt"
	"time"

	"github.com/0xReLogic/Helios/internal/config"
	"vsim/simrt"
)

func init() {
	register(&Scenario{Name: "lbaff", Props: []string{"C06"}, Kind: "micro", Run: runLBAff})
}

type identity struct {
	key  string // label for reports
	spec reqSpec
}

// proxyPeers: a client named by X-Forwarded-For / X-Real-IP reaches Helios through whichever
// front proxy took the connection; the peer address must not matter for its identity.
var proxyPeers = []string{"10.255.0.1", "10.255.0.2", "10.255.7.9", "172.16.0.4", "2001:db8:ffff::1"}
var affReqN int
var xffTails = []string{"", ", 10.0.0.1", ", 10.0.0.1, 10.0.0.2", ",10.0.0.9 ,  10.0.0.3,10.0.0.4", ", 2001:db8:ffff::2, 10.0.0.1", ", 10.0.0.2"}

// specOf returns the request for an identity; header-named clients come in through varying peers.
func specOf(id identity) reqSpec {
	sp := id.spec
	if sp.client == "10.255.0.1" && (sp.xff != "" || sp.xreal != "") {
		affReqN++
		sp.client = proxyPeers[(affReqN*7)%len(proxyPeers)]
		// a front proxy keeps a few connections open and sends everybody's requests over them:
		// the same peer ip:port carries many different clients
		sp.port = 50000 + (affReqN*3)%4
		// ... and through however many proxies happened to be on the way: each appends itself
		// to X-Forwarded-For; the client is the first element whatever follows it
		if sp.eitherHeader {
			if affReqN%2 == 0 {
				sp.xff, sp.xreal = "", sp.xff
			}
		} else if sp.xff != "" && !strings.Contains(sp.xff, ",") {
			sp.xff += xffTails[(affReqN*5)%len(xffTails)]
		}
	}
	return sp
}

func makeIdentities(x *X, n int) []identity {
	c := x.C
	var ids []identity
	junk := []string{"not-an-ip", "", "::::", "999.999.999.999", "a,b", " ", "[::1", "1.2.3.4:80", "unknown", "%zz", "0", "::ffff:10.0.0.1", "fe80::1%eth0"}
	for i := 0; i < n; i++ {
		a := fmt.Sprintf("%d.%d.%d.%d", 1+c.Intn(223, "ip-a"), c.Intn(256, "ip-b"), c.Intn(256, "ip-c"), 1+c.Intn(254, "ip-d"))
		a6 := fmt.Sprintf("2001:db8:%x::%x", c.Intn(65536, "ip6-a"), 1+c.Intn(65535, "ip6-b"))
		var id identity
		switch c.Intn(12, "idkind") {
		case 11:
			// one address string, named by X-Forwarded-For in some requests and by X-Real-IP in
			// others (two front proxies with different habits): the same client either way
			v := []string{"2001:DB8::1", "2001:db8:0:0:0:0:0:2", "0:0:0:0:0:0:0:1", "::ffff:192.0.2.33", a, "FE80::A:B:C:D"}[c.Intn(6, "either-addr")]
			id = identity{fmt.Sprintf("either-header:%s#%d", v, i), reqSpec{client: "10.255.0.1", xff: v, eitherHeader: true}}
		case 10:
			// a list whose first element is empty: whatever client that names, it is the same one
			// every time -- through whichever front proxy (peer) the request came
			j := []string{", 10.0.0.1", ",", ",,", ",198.51.100.7, 10.0.0.1", " , 10.9.9.9"}[c.Intn(5, "empty-first")]
			id = identity{fmt.Sprintf("xff-empty-first:%q#%d", j, i), reqSpec{client: "10.255.0.1", xff: j}}
		case 8:
			// a link-local peer: net/http reports it with its zone ("[fe80::1%eth0]:port")
			z := fmt.Sprintf("fe80::%x:%x%%%s", c.Intn(65536, "ll-a"), 1+c.Intn(65535, "ll-b"), []string{"eth0", "en1", "2", "wlan0.5"}[c.Intn(4, "zone")])
			id = identity{"peer6-zoned:" + z, reqSpec{client: z}}
		case 9:
			// an IPv4 client on a dual-stack listener
			m := "::ffff:" + a
			id = identity{"peer4-mapped:" + m, reqSpec{client: m}}
		case 0:
			id = identity{"peer4:" + a, reqSpec{client: a}}
		case 1:
			id = identity{"xff:" + a, reqSpec{client: "10.255.0.1", xff: a}}
		case 2:
			id = identity{"xff-list:" + a, reqSpec{client: "10.255.0.1", xff: a + ", 10.0.0.1, 10.0.0.2"}}
		case 3:
			id = identity{"xreal:" + a, reqSpec{client: "10.255.0.1", xreal: a}}
		case 4:
			id = identity{"peer6:" + a6, reqSpec{client: a6}}
		case 5:
			id = identity{"xff6:" + a6, reqSpec{client: "10.255.0.1", xff: a6}}
		case 6:
			j := junk[c.Intn(len(junk), "junk")]
			if j == "" {
				j = "x"
			}
			id = identity{fmt.Sprintf("xff-junk:%q#%d", j, i), reqSpec{client: fmt.Sprintf("10.254.%d.%d", i/250, 1+i%250), xff: j}}
			if j == " " || j == "x" {
				// an empty/blank header falls through to the peer address: still one identity
				id.spec.xff = j
			}
		case 7:
			id = identity{"xff+xreal:" + a, reqSpec{client: "10.255.0.1", xff: a, xreal: "203.0.113.200"}}
		}
		ids = append(ids, id)
	}
	return ids
}

func runLBAff(x *X) {
	c := x.C
	affReqN = 0
	strategy := []string{"ip_hash_consistent", "ip_hash"}[c.Intn(2, "strategy")]
	nb := 1 + c.Intn(6, "nbackends")
	nIDs := 16 + c.Intn(49, "nids")
	if x.Tier == "thorough" {
		nIDs = 64 + c.Intn(449, "nids-th")
	}
	window := 5 + c.Intn(10, "window")
	W := time.Duration(window) * time.Second
	var names []string
	var bcs []config.BackendConfig
	hostN := 0
	s := x.StartMicro()
	net := newStubNet(x)
	addCfg := func() config.BackendConfig {
		hostN++
		name := fmt.Sprintf("b%d", hostN)
		host := x.BackendHost(3, hostN)
		net.add(name, host, "")
		// (weights play no part in hash affinity -- which is exactly why they vary here)
		return config.BackendConfig{Name: name, Address: "http://" + host, Weight: 1 + c.Intn(5, "weight")}
	}
	for i := 0; i < nb; i++ {
		bc := addCfg()
		bcs = append(bcs, bc)
		names = append(names, bc.Name)
	}
	ids := makeIdentities(x, nIDs)
	onErr := func(e *simrt.SchedError) {
		x.Violate("C12", "C12/"+e.Kind+"{lbaff}", "%s", e.Error())
		x.Blocked(e, "lbaff")
	}
	var h *lbHarness
	x.Do("setup", func() {
		h, _ = newLBHarness(x, net, lbOpts{strategy: strategy, backends: bcs, passive: true, threshold: 1, window: window})
	}, onErr)
	if h == nil {
		s.Teardown()
		return
	}
	x.Sample["config"] = fmt.Sprintf("strategy=%s backends=%d identities=%d window=%ds", strategy, nb, nIDs, window)
	x.Logf("lbaff %s", x.Sample["config"])
	servedBy := func(id int) string { return net.dispatchedTo(id) }
	ejectedUntil := map[string]time.Duration{}
	mapping := map[string]string{} // identity -> backend within the current epoch
	var prevMapping map[string]string
	var appended string
	epoch := 0
	newEpoch := func(why string) {
		epoch++
		prevMapping, mapping = mapping, map[string]string{}
		x.Logf("epoch %d (%s) members=%v", epoch, why, names)
	}
	paths := []string{"/", "/a/b?x=1", "/static/app.js", "/api/v1/users/42", "/%41%20b"}
	var hist []string
	observations := 0
	note := func(id identity, res simResult) {
		be := servedBy(res.id)
		if res.panicV != nil {
			x.Violate("C06", "C06/panic-on-address", "request for identity %s panicked: %v", id.key, res.panicV)
			return
		}
		if be == "" {
			if res.status == 503 {
				return // C02's business
			}
			return
		}
		observations++
		member := false
		for _, n := range names {
			if n == be {
				member = true
			}
		}
		if until, ej := ejectedUntil[be]; !member || (ej && x.Now() < until) {
			x.Violate("C06", "C06/ineligible-choice{"+strategy+"}", "identity %s was sent to %s which is removed or inside its unhealthy window", id.key, be)
		}
		if old, ok := mapping[id.key]; ok && old != be {
			x.Violate("C06", "C06/affinity-broken{"+strategy+"}", "identity %s went to %s and then to %s within one epoch (eligible set unchanged, members %v)", id.key, old, be, names)
		}
		mapping[id.key] = be
		if strategy == "ip_hash_consistent" && appended != "" && prevMapping != nil {
			if old, ok := prevMapping[id.key]; ok && old != be && be != appended {
				x.Violate("C06", "C06/append-moved-to-old-backend", "after appending %s identity %s moved from %s to %s (may only stay or move to the appended backend)", appended, id.key, old, be)
			}
			if old, ok := prevMapping[id.key]; ok && old != be {
				x.Probe("append-moved-key")
			}
		}
	}
	var lastID identity
	haveLast := false
	lastRemoved := ""
	crowdDone := false
	traffic := func(concurrent bool) {
		k := 8 + c.Intn(40, "ntraffic")
		if concurrent {
			tasks := 2 + c.Intn(5, "tasks")
			type job struct {
				id   identity
				spec reqSpec
			}
			per := make([][]job, tasks)
			for i := 0; i < k; i++ {
				id := ids[c.Intn(len(ids), "id")]
				sp := specOf(id)
				sp.path = paths[c.Intn(len(paths), "path")]
				sp.hdr = map[string]string{"User-Agent": fmt.Sprintf("ua-%d", i)}
				per[i%tasks] = append(per[i%tasks], job{id, sp})
			}
			type done struct {
				id  identity
				res simResult
			}
			var all []done
			for t := 0; t < tasks; t++ {
				js := per[t]
				s.Spawn("client", func() {
					for _, j := range js {
						r := h.do(j.spec)
						x.mu.Lock()
						all = append(all, done{j.id, r})
						x.mu.Unlock()
					}
				})
			}
			x.RunTasks(onErr)
			for _, d := range all {
				note(d.id, d.res)
			}
			x.Probe("concurrent-traffic")
		} else {
			for i := 0; i < k && !x.dead; i++ {
				id := ids[c.Intn(len(ids), "id")]
				// whoever was served last before a change is often the first one back after it (a
				// kept-alive client that keeps going): whatever the balancer remembers about "the
				// previous request" is then about this very client
				if i == 0 && haveLast && c.Intn(2, "last-client-first") == 0 {
					id = lastID
				}
				sp := specOf(id)
				sp.path = paths[c.Intn(len(paths), "path")]
				var r simResult
				x.Do("req", func() { r = h.do(sp) }, onErr)
				note(id, r)
				lastID, haveLast = id, true
			}
		}
	}

	newEpoch("start")
	traffic(false)
	nOps := 2 + c.Intn(6, "nops")
	for i := 0; i < nOps && !x.dead; i++ {
		crowdW := 0
		if !crowdDone && c.Intn(4, "crowd-possible") == 0 {
			crowdW = 2
		}
		switch c.Pick([]int{4, 3, 2, 2, 2, 2, crowdW}, "op") {
		case 6: // one client with a hundred and more requests in flight (a scraper, a batch job): however
			// busy its backend is, the next request of that client goes where the others went
			crowdDone = true
			id := ids[c.Intn(len(ids), "crowd-id")]
			n := 100 + c.Intn(30, "crowd-n")
			var plans []*reqPlan
			var held []simResult
			for j := 0; j < n && !x.dead; j++ {
				p := &reqPlan{hold: true}
				plans = append(plans, p)
				sp := specOf(id)
				sp.plan = p
				s.Spawn("crowd", func() {
					r := h.do(sp)
					x.mu.Lock()
					held = append(held, r)
					x.mu.Unlock()
				})
			}
			x.Settle(onErr)
			for j := 0; j < 2 && !x.dead; j++ {
				var r simResult
				sp := specOf(id)
				x.Do("req", func() { r = h.do(sp) }, onErr)
				note(id, r)
			}
			net.mu.Lock()
			for _, p := range plans {
				p.released = true
			}
			net.mu.Unlock()
			x.RunTasks(onErr)
			for _, r := range held {
				note(id, r)
			}
			x.Probe("one-client-with-a-crowd-in-flight")
			hist = append(hist, fmt.Sprintf("crowd(%d)", n))
			continue
		case 5: // the operator switches to another strategy and back: same members, same mapping
			other := strategies[c.Intn(5, "via-strategy")]
			x.Do("switch", func() {
				if err := h.lb.SetStrategy(other); err != nil {
					panic(err)
				}
				if err := h.lb.SetStrategy(strategy); err != nil {
					panic(err)
				}
			}, onErr)
			hist = append(hist, "strategy("+other+")+back")
			x.Probe("strategy-round-trip")
		case 0:
			traffic(c.Intn(2, "conc") == 1)
			hist = append(hist, "traffic")
			continue
		case 1: // append
			if len(names) >= 8 {
				continue
			}
			// make sure the identities have a mapping in the epoch before the append
			for _, id := range ids {
				if _, ok := mapping[id.key]; !ok && !x.dead {
					var r simResult
					sp := specOf(id)
					x.Do("req", func() { r = h.do(sp) }, onErr)
					note(id, r)
				}
			}
			bc := addCfg()
			// a backend that was taken out (maintenance) often comes back under its old name, at a new
			// address or the old one: for the pool it is an append like any other
			if lastRemoved != "" && c.Intn(2, "re-add-removed-name") == 0 {
				present := false
				for _, n := range names {
					if n == lastRemoved {
						present = true
					}
				}
				if !present {
					host := x.BackendHost(3, hostN)
					net.add(lastRemoved, host, "")
					bc.Name, bc.Address = lastRemoved, "http://"+host
					x.Probe("removed-name-re-added")
				}
			}
			x.Do("add", func() {
				if err := h.lb.AddBackend(bc); err != nil {
					panic(err)
				}
			}, onErr)
			names = append(names, bc.Name)
			newEpoch("append " + bc.Name)
			appended = bc.Name
			hist = append(hist, "append("+bc.Name+")")
			// every known identity again, right after the append
			for _, id := range ids {
				if x.dead {
					break
				}
				var r simResult
				sp := specOf(id)
				x.Do("req", func() { r = h.do(sp) }, onErr)
				note(id, r)
			}
			appended = ""
			prevMapping = nil
			continue
		case 2: // remove
			if len(names) <= 1 {
				continue
			}
			k := c.Intn(len(names), "rm")
			nm := names[k]
			x.Do("remove", func() { h.lb.RemoveBackend(nm) }, onErr)
			lastRemoved = nm
			names = append(names[:k], names[k+1:]...)
			delete(ejectedUntil, nm)
			newEpoch("remove " + nm)
			prevMapping = nil
			hist = append(hist, "remove("+nm+")")
		case 3: // eject the backend some identity maps to
			var id identity
			var target string
			for _, cand := range ids {
				if be, ok := mapping[cand.key]; ok {
					id, target = cand, be
					break
				}
			}
			if target == "" {
				continue
			}
			b := net.byName[target]
			net.mu.Lock()
			b.mode = "s502"
			net.mu.Unlock()
			x.Fault("backend-s502")
			var r simResult
			sp := specOf(id)
			x.Do("req", func() { r = h.do(sp) }, onErr)
			_ = r
			net.mu.Lock()
			b.mode = "ok"
			net.mu.Unlock()
			ejectedUntil[target] = x.Now() + W
			newEpoch("eject " + target)
			prevMapping = nil
			hist = append(hist, "eject("+target+")")
		case 4: // time passes beyond every window
			x.Advance(W+time.Second, onErr)
			newEpoch("time")
			prevMapping = nil
			hist = append(hist, "time(>window)")
		}
		traffic(c.Intn(3, "conc") == 2)
	}
	x.Sample["history"] = hist
	x.Sample["observations"] = observations
	x.State(strategy, fmt.Sprint(len(names)), fmt.Sprint(epoch))
	if left := s.Teardown(); left > 0 {
		x.Probe("teardown-left")
	}
}
