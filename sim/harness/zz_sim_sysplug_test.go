package main

// Scenario "sysplug": the size_limit (C14) and gzip (C15) plugins behind a real
// connection. Limits are drawn small so that boundaries are common; bodies of
// limit-1 / limit / limit+1 / much larger in declared and chunked framing,
// responses split into writes by the script and by network fragmentation,
// every status class incl. bodiless; Accept-Encoding spellings, content types
// in/outside the configured prefixes, sizes around min_size, compressible and
// incompressible payloads, already-encoded backend responses.

import (
	"bytes"
	"compress/gzip"
	"fmt"
	"io"
	"strings"
	"time"

	"github.com/0xReLogic/Helios/internal/config"
	"github.com/0xReLogic/Helios/internal/logging"
)

func init() {
	register(&Scenario{Name: "sysplug", Props: []string{"C14", "C15"}, Kind: "system", Run: runSysPlug})
}

func gz(b []byte) []byte {
	var buf bytes.Buffer
	w := gzip.NewWriter(&buf)
	w.Write(b)
	w.Close()
	return buf.Bytes()
}

func gunz(b []byte) ([]byte, error) {
	r, err := gzip.NewReader(bytes.NewReader(b))
	if err != nil {
		return nil, err
	}
	return io.ReadAll(r)
}

func sizedBody(x *X, n int, compressible bool, label string) []byte {
	b := make([]byte, n)
	seed := uint32(x.C.Intn(1<<16, label+"-seed")) + 1
	for i := range b {
		seed = seed*1664525 + 1013904223
		if compressible {
			const alpha = "aaaaabbbbb {\"k\":1}\n"
			b[i] = alpha[int(seed>>24)%len(alpha)]
		} else {
			b[i] = byte(seed >> 24)
		}
	}
	return b
}

func runSysPlug(x *X) {
	c := x.C
	wantSize := x.Prop == "C14" || (x.Prop == "" && c.Intn(2, "with-size") == 1)
	wantGzip := x.Prop == "C15" || (x.Prop == "" && c.Intn(2, "with-gzip") == 1)
	if x.Prop == "C14" && c.Intn(4, "also-gzip") == 0 {
		wantGzip = true
	}
	if x.Prop == "C15" && c.Intn(4, "also-size") == 0 {
		wantSize = true
	}
	L1 := 1 + c.Intn(64, "L1")
	if c.Intn(3, "L1-big") == 0 {
		L1 = 500 + c.Intn(3600, "L1b")
	}
	// now and then the request limit is simply left out of the configuration: the documented
	// default applies (README / docs/plugin-development.md: 10 MB for requests, 50 MB for responses)
	defOdds := 100
	if x.Tier == "thorough" {
		defOdds = 30
	}
	defaultReqLimit := wantSize && !wantGzip && c.Intn(defOdds, "request-limit-left-out") == 0
	if defaultReqLimit {
		L1 = 10 << 20
		x.Probe("documented-default-request-limit")
	}
	L2 := 1 + c.Intn(64, "L2")
	if c.Intn(3, "L2-big") == 0 {
		L2 = 500 + c.Intn(3600, "L2b")
	}
	if wantGzip && wantSize && c.Intn(2, "L2-huge") == 0 {
		L2 = 1 << 20
	}
	level := -1 + c.Intn(11, "level")
	if c.Intn(3, "level-edge") == 0 {
		level = []int{-1, 0, 1, 9}[c.Intn(4, "level-edge-value")] // default, none, fastest, best
	}
	minSize := []int{0, 1, 64, 256, 1024}[c.Intn(5, "minsize")]
	ctypes := [][]string{{"text/", "application/json"}, {"application/json"}, {"text/html", "text/css", "application/json", "application/javascript"}}[c.Intn(3, "ctypes")]
	var chain []config.PluginConfig
	sizeCfg := config.PluginConfig{Name: "size_limit", Config: map[string]interface{}{"max_request_body": L1, "max_response_body": L2}}
	if defaultReqLimit {
		sizeCfg = config.PluginConfig{Name: "size_limit", Config: map[string]interface{}{"max_response_body": L2}}
	}
	cts := make([]interface{}, len(ctypes))
	for i, s := range ctypes {
		cts[i] = s
	}
	gzipCfg := config.PluginConfig{Name: "gzip", Config: map[string]interface{}{"level": float64(level), "min_size": float64(minSize), "content_types": cts}}
	var parts []config.PluginConfig
	if wantSize {
		if !wantGzip && !defaultReqLimit && c.Intn(3, "two-size-limits") == 0 {
			// two size_limit entries in one chain (say a global one and a stricter one for this
			// listener): the stricter limit of each direction is L1 / L2, the other entry is
			// looser; which entry carries which is drawn, their chain positions too
			X1, X2 := L1+c.Intn(200, "looser-req"), L2+1+c.Intn(200, "looser-resp")
			e1 := map[string]interface{}{"max_request_body": L1, "max_response_body": L2}
			e2 := map[string]interface{}{"max_request_body": X1, "max_response_body": X2}
			if c.Intn(2, "swap-req") == 1 {
				e1["max_request_body"], e2["max_request_body"] = X1, L1
			}
			if c.Intn(2, "swap-resp") == 1 {
				e1["max_response_body"], e2["max_response_body"] = X2, L2
			}
			parts = append(parts, config.PluginConfig{Name: "size_limit", Config: e1}, config.PluginConfig{Name: "size_limit", Config: e2})
			x.Probe("two-size-limits-in-chain")
		} else {
			parts = append(parts, sizeCfg)
		}
	}
	if wantGzip {
		parts = append(parts, gzipCfg)
		if c.Intn(8, "two-gzip-entries") == 0 {
			// the plugin listed twice (same eligibility rules, another level): whatever the inner one
			// produced is "already encoded" for the outer one -- the client still decodes once
			l2 := -1 + c.Intn(11, "level-2")
			parts = append(parts, config.PluginConfig{Name: "gzip", Config: map[string]interface{}{"level": float64(l2), "min_size": float64(minSize), "content_types": cts}})
			x.Probe("two-gzip-entries-in-chain")
		}
	}
	if c.Intn(2, "p-logging") == 1 {
		parts = append(parts, config.PluginConfig{Name: "logging"})
	}
	// drawn chain position
	for len(parts) > 0 {
		k := c.Intn(len(parts), "chain-pos")
		chain = append(chain, parts[k])
		parts = append(parts[:k], parts[k+1:]...)
	}
	var names []string
	for _, p := range chain {
		names = append(names, p.Name)
	}
	o := sysOpts{strategy: strategies[c.Intn(5, "strategy")], nBackends: 1 + c.Intn(2, "nbackends"), plugins: chain}
	o.timeouts = config.TimeoutConfig{Read: 60, Write: 60, Idle: 60, BackendRead: 60, Handler: 120}
	env, err := newSysEnv(x, o)
	if err != nil {
		panic(err)
	}
	defer env.close()
	cl := env.addClient("198.51.100.30:40000")
	nEx := 2 + c.Intn(6, "nexchanges")
	type meta struct {
		ae          string
		preEncoded  string
		plain       []byte
		compressible bool
	}
	metas := map[int]*meta{}
	var all []*exchange
	aes := []string{"", "gzip", "GZIP", "gzip;q=0", "deflate, gzip", "identity", "br, gzip;q=0.5", "*", "gzip, deflate, br", "gzip , br"}
	for i := 0; i < nEx; i++ {
		ex := env.newExchange(cl)
		m := &meta{}
		metas[ex.id] = m
		ex.method = []string{"GET", "POST", "PUT", "HEAD", "GET", "DELETE", "PATCH"}[c.Intn(7, "method")]
		ex.target = fmt.Sprintf("/p/%d", i)
		if c.Intn(3, "asset-path") == 0 {
			// what a response is, is said by its headers, not by how the request path ends
			ex.target = []string{"/assets/vendor.min.js", "/styles/site.css", "/data/export.json", "/img/logo.svg", "/docs/index.html", "/blobs/firmware.bin"}[c.Intn(6, "asset")] + fmt.Sprintf("?v=%d", i)
		}
		// any method may carry a body (unusual for GET/HEAD/DELETE, legal all the same): limits are per request, not per verb
		if ex.method == "POST" || ex.method == "PUT" || ex.method == "PATCH" || c.Intn(4, "body-anyway") == 0 {
			var n int
			switch c.Intn(6, "reqsize") {
			case 0:
				n = 0
			case 1:
				n = L1 - 1
			case 2:
				n = L1
			case 3:
				n = L1 + 1
			case 4:
				n = 3*L1 + 7
			case 5:
				n = c.Intn(2*L1+2, "reqn")
			}
			if defaultReqLimit {
				// (10 MB bodies: one per run, right at the limit)
				n = 0
				if i == 0 {
					n = L1 + []int{-1, 0, 1, 4096}[c.Intn(4, "default-limit-delta")]
				}
			}
			ex.body = sizedBody(x, n, true, "req")
			ex.chunked = c.Intn(2, "reqchunked") == 1
			ex.pieces = genPieces(x, len(ex.body), "req")
			// what the client calls its body is the client's business (forms included: a plugin that
			// counts bytes has no reason to parse them)
			if ct := []string{"", "", "application/x-www-form-urlencoded", "multipart/form-data; boundary=xyz", "application/json", "text/plain; charset=utf-8"}[c.Intn(6, "req-content-type")]; ct != "" {
				ex.hdr = append(ex.hdr, hdrKV{"Content-Type", ct})
			}
		}
		// now and then a body of hundreds of kilobytes to megabytes (well inside the buffering cap)
		largeOdds := 25
		if x.Tier == "thorough" {
			largeOdds = 10
		}
		largeCase := wantGzip && !wantSize && i == 0 && c.Intn(largeOdds, "large-body") == 0
		largePlain := largeCase && c.Intn(4, "large-plain") != 0 // mostly an ordinary compressible 200
		m.ae = aes[c.Intn(len(aes), "ae")]
		if largePlain {
			m.ae = "gzip"
		}
		if m.ae != "" {
			ex.hdr = append(ex.hdr, hdrKV{"Accept-Encoding", m.ae})
		}
		ex.newConn = c.Intn(4, "newconn") == 0
		rs := &respScript{}
		ex.resp = rs
		rs.status = []int{200, 200, 200, 201, 204, 304, 302, 404, 500, 206}[c.Intn(10, "status")]
		ct := []string{"text/plain", "application/json", "application/octet-stream", "text/html; charset=utf-8", "image/png", "", "text/event-stream", "Application/JSON; charset=UTF-8"}[c.Intn(8, "ctype")]
		if largePlain {
			rs.status, ct = 200, "application/json"
		}
		if ct != "" && rs.status != 304 {
			rs.hdr = append(rs.hdr, hdrKV{"Content-Type", ct})
		}
		if rs.status == 302 {
			rs.hdr = append(rs.hdr, hdrKV{"Location", "/next"})
		}
		var n int
		ref := L2
		if wantGzip && !wantSize {
			ref = minSize
			if ref == 0 {
				ref = 32
			}
		} else if wantGzip && c.Intn(2, "around-minsize") == 1 {
			ref = minSize + 1
		}
		switch c.Intn(7, "respsize") {
		case 0:
			n = 0
		case 1:
			n = ref - 1
		case 2:
			n = ref
		case 3:
			n = ref + 1
		case 4:
			n = 3*ref + 5
		case 5:
			n = c.Intn(2*ref+2, "respn")
		case 6:
			n = 2000 + c.Intn(3000, "respbig")
		}
		if n < 0 {
			n = 0
		}
		// now and then a body around the gzip plugin's 10 MB buffering cap
		capCase := false
		capOdds := 100 // (quick tier: a few dozen 10 MB bodies per check)
		if x.Tier == "thorough" {
			capOdds = 25
		}
		if wantGzip && !wantSize && i == 0 && c.Intn(capOdds, "cap-case") == 0 {
			n = 10*1024*1024 - 2 + []int{0, 1, 2, 3, 4, 3, 4, 4096}[c.Intn(8, "cap-delta")]
			capCase = true
			x.Probe("around-10MB-cap")
			if c.Intn(2, "cap-status") == 1 {
				rs.status = []int{201, 404, 500, 206}[c.Intn(4, "cap-status-code")] // (big answers are not all 200s)
			}
		}
		if largeCase && !capCase {
			n = []int{64 << 10, 256 << 10, 1 << 20, 2 << 20, 4 << 20}[c.Intn(5, "large-size")] + []int{-1, 0, 1, 4096}[c.Intn(4, "large-delta")]
			x.Probe("large-body")
		}
		m.compressible = c.Intn(3, "incompressible") != 0 || capCase
		m.plain = sizedBody(x, n, m.compressible, "resp")
		rs.body = m.plain
		if (wantGzip || wantSize) && n > 0 && c.Intn(6, "pre-encoded") == 0 {
			m.preEncoded = []string{"gzip", "br", "deflate", "zstd", "x-gzip", "identity", "Identity"}[c.Intn(7, "pre-kind")] // (a label is a label: the backend has spoken)
			if m.preEncoded == "gzip" {
				rs.body = gz(m.plain)
			}
			rs.hdr = append(rs.hdr, hdrKV{"Content-Encoding", m.preEncoded})
		}
		if rs.status == 204 || rs.status == 304 || ((rs.status == 302 || rs.status == 404 || rs.status == 500) && c.Intn(2, "empty") == 1) {
			rs.body, m.plain, m.preEncoded = nil, nil, ""
			rs.hdr = filterHdr(rs.hdr, "Content-Encoding")
		}
		rs.framing = []string{"cl", "chunked", "cl"}[c.Intn(3, "framing")]
		// interim responses pass through the plugins' writers before the final status does
		if c.Intn(8, "interim") == 0 {
			rs.interim = []int{103}
			x.Probe("interim-response-through-plugins")
		}
		// (an upload that announces itself with Expect: 100-continue is bounded like any other: a
		// chunked one has no declared length to be judged by, only the bytes themselves)
		if len(ex.body) > 0 && (!wantSize || len(ex.body) <= L1 || ex.chunked) && c.Intn(5, "expect-continue") == 0 {
			ex.expect = "accept"
			ex.hdr = append(ex.hdr, hdrKV{"Expect", "100-continue"})
			x.Probe("expect-continue-through-plugins")
		}
		if capCase && c.Intn(2, "cap-streamed") == 1 {
			rs.framing = "chunked" // a streamed body has no declared length to fall back on
		}
		if rs.status == 204 || rs.status == 304 {
			rs.framing = "none"
		}
		if len(rs.body) > 0 {
			k := c.Intn(4, "nwrites")
			for j := 0; j < k; j++ {
				rs.steps = append(rs.steps, respStep{kind: "write", n: 1 + c.Intn(len(rs.body), "wsize")})
				// a backend that streams (events, progress output) pauses between its writes: the proxy
				// flushes what it has got so far through the plugins' writers
				if ct == "text/event-stream" || c.Intn(6, "pause-between-writes") == 0 {
					rs.steps = append(rs.steps, respStep{kind: "sleep", d: time.Duration(20+c.Intn(400, "pause-ms")) * time.Millisecond})
				}
			}
		}
		// streams and trailers pass through the plugins' writers like everything else (not through
		// gzip, which buffers by design): a response head flushed on its own, trailers after a body
		// or after none at all
		if !wantGzip && rs.framing == "chunked" && ex.method != "HEAD" && rs.status != 204 && rs.status != 304 {
			if len(rs.body) > 0 && c.Intn(6, "idle-first") == 0 {
				rs.steps = append([]respStep{{kind: "sleep", d: time.Duration(2+c.Intn(3, "idle-s")) * time.Second}}, rs.steps...)
				x.Probe("idle-first-stream-through-plugins")
			}
			if c.Intn(5, "trailer") == 0 {
				rs.trailer = []hdrKV{{"X-Checksum", "crc32=1c291ca3"}}
				if c.Intn(2, "trailer2") == 1 {
					rs.trailer = append(rs.trailer, hdrKV{"Server-Timing", "db;dur=53"})
				}
				x.Probe("trailer-through-plugins")
			}
		}
		// a request that asks for a protocol upgrade and is answered with an ordinary response is an
		// ordinary exchange: limits and codings apply to it like to any other
		if ex.method == "GET" && len(ex.body) == 0 && c.Intn(8, "upgrade-request") == 0 {
			ex.hdr = append(ex.hdr, hdrKV{"Connection", "Upgrade"}, hdrKV{"Upgrade", "websocket"})
			x.Probe("upgrade-request-answered-plainly")
		}
		// the TE request header (hop-by-hop, about transfer codings) is not Accept-Encoding
		if c.Intn(8, "te-header") == 0 {
			ex.hdr = append(ex.hdr, hdrKV{"TE", []string{"gzip", "trailers, gzip", "trailers"}[c.Intn(3, "te-value")]})
		}
		all = append(all, ex)
		// fault: a client that goes away before the response. Its own exchange has no oracle;
		// what it must not do is damage the exchanges after it (buffers, pooled writers, limits).
		if wantGzip && i+1 < nEx && c.Intn(6, "client-gone") == 0 {
			gx := env.newExchange(cl)
			gm := &meta{ae: "gzip"}
			metas[gx.id] = gm
			gx.method, gx.target = "GET", fmt.Sprintf("/gone/%d", i)
			gx.hdr = append(gx.hdr, hdrKV{"Accept-Encoding", "gzip"})
			gx.noRead = true
			gn := 6000 + c.Intn(24000, "gone-size")
			gm.plain = sizedBody(x, gn, c.Intn(2, "gone-compressible") == 1, "gone")
			grs := &respScript{status: 200, body: gm.plain, framing: []string{"cl", "chunked"}[c.Intn(2, "gone-framing")]}
			grs.hdr = append(grs.hdr, hdrKV{"Content-Type", "application/json"})
			grs.steps = []respStep{{kind: "write", n: 1 + c.Intn(gn/2, "gone-first")}, {kind: "sleep", d: time.Duration(50+c.Intn(400, "gone-ms")) * time.Millisecond}}
			gx.resp = grs
			all = append(all, gx)
			x.Fault("client-gone-before-response")
		}
	}
	x.Sample["config"] = fmt.Sprintf("chain=%v max_request_body=%d max_response_body=%d gzip(level=%d min_size=%d types=%v)", names, L1, L2, level, minSize, ctypes)
	var desc []string
	for _, ex := range all {
		m := metas[ex.id]
		desc = append(desc, fmt.Sprintf("%s reqbody=%d chunked=%v AE=%q -> %d %s body=%d pre=%q writes=%d", ex.method, len(ex.body), ex.chunked, m.ae, ex.resp.status, ex.resp.framing, len(ex.resp.body), m.preEncoded, len(ex.resp.steps)))
	}
	x.Sample["exchanges"] = desc
	x.Logf("sysplug %s %v", x.Sample["config"], desc)
	// in a third of the runs the network does not fragment: only then is "the first write
	// the proxy sees" known to be the first write the backend made
	fragment := c.Intn(3, "fragmenting-network") != 0
	ok := env.drive(driveOpts{fragment: fragment, delays: true, maxVirtual: 5 * 60e9})
	for _, p := range stdLogWatcher.take() {
		x.Violate("C03", "C03/panic-serving", "net/http reported: %s", p)
	}
	_ = ok
	rh, th := logging.RequestHeaderName(env.cfg.Logging), logging.TraceHeaderName(env.cfg.Logging)
	hasToken := func(ae string) bool {
		for _, part := range strings.Split(ae, ",") {
			p := strings.TrimSpace(part)
			if p == "gzip" {
				return true
			}
		}
		return false
	}
	for _, ex := range all {
		m := metas[ex.id]
		rs := ex.resp
		got := ex.got
		if ex.noRead {
			continue
		}
		if !ex.done {
			x.Violate(propOf(x, wantSize), propOf(x, wantSize)+"/exchange-did-not-complete", "exchange %d (%s -> %d, %d bytes) did not complete", ex.id, ex.method, rs.status, len(rs.body))
			continue
		}
		// ---------------- C14: request side ----------------------------------
		reqOver := false
		if wantSize {
			for _, sr := range ex.seen {
				if len(sr.body) > L1 {
					x.Violate("C14", "C14/backend-received-oversized-request", "exchange %d: backend received %d request body bytes, max_request_body=%d (chunked=%v)", ex.id, len(sr.body), L1, ex.chunked)
				}
			}
			if len(ex.body) > L1 {
				reqOver = true
				if !ex.chunked {
					// declared length: 413 before any backend is contacted
					if len(ex.seen) > 0 {
						x.Violate("C14", "C14/oversized-declared-request-forwarded", "exchange %d declared Content-Length %d > max_request_body %d and still reached a backend", ex.id, len(ex.body), L1)
					}
					if got == nil || got.status != 413 {
						st := 0
						if got != nil {
							st = got.status
						}
						x.Violate("C14", "C14/oversized-declared-request-not-413", "exchange %d declared Content-Length %d > max_request_body %d and got status %d", ex.id, len(ex.body), L1, st)
					}
					x.Probe("request-over-limit-declared")
				} else {
					x.Probe("request-over-limit-chunked")
				}
			} else if len(ex.body) == L1 && L1 > 0 {
				x.Probe("request-exactly-at-limit")
			}
		}
		// a request within the limit (or with no limit configured) passes through the plugins as it
		// came: the backend reads the bytes the client sent
		if !wantSize || len(ex.body) <= L1 {
			for _, sr := range ex.seen {
				if sr.bodyErr == "" && !bytes.Equal(sr.body, ex.body) {
					x.Violate(propOf(x, wantSize), propOf(x, wantSize)+"/within-limit-request-altered", "exchange %d (%s, chunked=%v, %d body bytes, headers %v): the backend read %d bytes that differ from what the client sent", ex.id, ex.method, ex.chunked, len(ex.body), ex.hdr, len(sr.body))
					break
				}
			}
		}
		if reqOver || got == nil {
			continue
		}
		// ---------------- response side ---------------------------------------
		respOver := wantSize && len(rs.body) > L2 && ex.method != "HEAD"
		gzEligible := wantGzip && hasToken(m.ae) && m.preEncoded == "" && len(rs.body) >= minSize && len(rs.body) <= 10<<20 && ex.method != "HEAD"
		// the gzip wrapper is only installed for requests that list gzip; when it is, sizes
		// seen by the client are encoded sizes and belong to C15's oracle, not C14's
		gzipActs := wantGzip && hasToken(m.ae)
		if gzEligible {
			ctv := ""
			for _, kv := range rs.hdr {
				if kv.K == "Content-Type" {
					ctv = kv.V
				}
			}
			match := false
			for _, p := range ctypes {
				if strings.HasPrefix(ctv, p) {
					match = true
				}
			}
			gzEligible = match
		}
		if wantSize && !gzipActs {
			if len(got.body) > L2 && !(got.status == 413 && respOver) { // Helios' own 413 text is not the backend's body
				x.Violate("C14", "C14/client-received-oversized-response", "exchange %d: client received %d response body bytes, max_response_body=%d", ex.id, len(got.body), L2)
			}
			if respOver {
				x.Probe("response-over-limit")
				// the excess is certainly detected before anything was sent when the very first
				// write already exceeds the limit
				first := len(rs.body)
				if len(rs.steps) > 0 {
					first = rs.steps[0].n
				}
				if got.status != 413 && !(got.err != "" && len(got.body) <= L2) {
					x.Violate("C14", "C14/oversized-response-delivered", "exchange %d: response body of %d bytes exceeds max_response_body=%d; client got status %d, %d bytes, err=%q (expected a 413 or an aborted response within the limit)", ex.id, len(rs.body), L2, got.status, len(got.body), got.err)
				}
				// (the transport reads the backend through a 4 KB buffer: only a response that fits
				// in it whole is certain to reach the plugin in one piece)
				// (and not an event stream: for those the reverse proxy arms an immediate flush of the
				// response head on a timer goroutine of its own; whether that flush or the first body
				// write gets to the plugin first is the Go scheduler's choice, and once the head is
				// out a 413 is no longer possible -- seen once in 250000 runs, not replayable)
				eventStream := false
				for _, kv := range rs.hdr {
					if kv.K == "Content-Type" && strings.HasPrefix(strings.ToLower(kv.V), "text/event-stream") {
						eventStream = true
					}
				}
				// a 413 is an answer like any other: the client must be able to read it to its end
				// (what it declares is what it delivers), however small the configured limit is
				if got.status == 413 && got.err != "" && ex.method != "HEAD" {
					x.Violate("C14", "C14/413-answer-malformed", "exchange %d: the 413 for an oversized response (max_response_body=%d) cannot be read completely: %d body bytes, Content-Length %q, then %s", ex.id, L2, len(got.body), got.hdr.Get("Content-Length"), got.err)
				}
				// ... and it is Helios' own answer: what it says about its coding is about its own body,
				// not about the response it stands in for
				if ce := strings.ToLower(got.hdr.Get("Content-Encoding")); got.status == 413 && ce != "" && ce != "identity" && ex.method != "HEAD" && len(got.body) > 0 {
					readable := true
					switch ce {
					case "gzip", "x-gzip":
						_, err := gunz(got.body)
						readable = err == nil
					default:
						// (no decoder at hand for the others: an encoded stream is not plain printable text)
						plain := true
						for _, b := range got.body {
							if b != '\n' && b != '\r' && b != '\t' && (b < 0x20 || b > 0x7e) {
								plain = false
							}
						}
						readable = !plain
					}
					if !readable {
						x.Violate("C14", "C14/413-answer-mislabelled{"+ce+"}", "exchange %d: the 413 for an oversized response says Content-Encoding %q and carries %d bytes that are not in that coding (%q): a client that honours the header cannot read it", ex.id, ce, len(got.body), trunc(string(got.body), 40))
					}
				}
				if !fragment && first > L2 && len(rs.body) <= 3000 && !wantGzip && rs.framing == "cl" && !eventStream && got.status != 413 {
					x.Violate("C14", "C14/oversized-response-not-413", "exchange %d: the first response write (%d bytes) already exceeds max_response_body=%d, client got status %d with %d bytes", ex.id, first, L2, got.status, len(got.body))
				}
				continue
			}
			if len(rs.body) == L2 {
				x.Probe("response-exactly-at-limit")
			}
		}
		if respOver {
			continue // cut off by size_limit: not C15's business
		}
		if wantSize && gzipActs && len(rs.body)+4096 > L2 {
			// incompressible data grows a little when encoded and may then legitimately hit
			// a size_limit placed outside gzip: not judged
			continue
		}
		// ---------------- C15 ---------------------------------------------------
		if wantGzip {
			if got.err != "" {
				x.Violate("C15", "C15/client-cannot-read-response", "exchange %d (%s AE=%q -> %d %s %dB type-eligible=%v): client failed with %s after %d bytes (headers CE=%q CL=%q)", ex.id, ex.method, m.ae, rs.status, rs.framing, len(rs.body), gzEligible, got.err, len(got.body), got.hdr.Get("Content-Encoding"), got.hdr.Get("Content-Length"))
				continue
			}
			if got.status != rs.status {
				x.Violate("C15", fmt.Sprintf("C15/status-differs{%d->%d}", rs.status, got.status), "exchange %d: backend sent %d, client got %d (body %d bytes)", ex.id, rs.status, got.status, len(rs.body))
			}
			ce := got.hdr.Get("Content-Encoding")
			decoded := got.body
			if ex.method != "HEAD" {
				switch ce {
				case "gzip":
					d, err := gunz(got.body)
					if err != nil {
						x.Violate("C15", "C15/labelled-gzip-but-not-gzip", "exchange %d: Content-Encoding gzip but the body does not decode: %v", ex.id, err)
						continue
					}
					decoded = d
				case "br", "deflate", "zstd", "x-gzip":
					decoded = nil // opaque: must be byte-identical to what the backend sent
				}
				want := m.plain
				if ce == "br" || ce == "deflate" || ce == "zstd" || ce == "x-gzip" {
					if !bytes.Equal(got.body, rs.body) {
						x.Violate("C15", "C15/pre-encoded-body-altered", "exchange %d: backend's %s-encoded body was altered", ex.id, ce)
					}
				} else if m.preEncoded != "" && m.preEncoded != "gzip" {
					// judged by the pre-encoded rule below
				} else if !bytes.Equal(decoded, want) {
					kind := "identity-label-on-other-bytes"
					if _, err := gunz(got.body); err == nil && ce == "" {
						kind = "gzip-bytes-labelled-identity"
					}
					if ce == "gzip" {
						kind = "gzip-label-wrong-content"
						if d2, err := gunz(decoded); err == nil && bytes.Equal(d2, want) {
							kind = "double-encoded"
						}
					}
					x.Violate("C15", "C15/decoded-body-differs{"+kind+"}", "exchange %d (%s AE=%q -> %d %s): decoding the client's %d bytes per Content-Encoding %q gives %d bytes, the backend's body has %d (pre-encoded=%q, eligible=%v)", ex.id, ex.method, m.ae, rs.status, rs.framing, len(got.body), ce, len(decoded), len(want), m.preEncoded, gzEligible)
				}
			}
			// "not already encoded": a response the backend encoded itself is delivered byte-identical,
			// under the encoding the backend named
			if m.preEncoded != "" && ex.method != "HEAD" && len(rs.body) > 0 && (ce != m.preEncoded || !bytes.Equal(got.body, rs.body)) {
				x.Violate("C15", "C15/pre-encoded-response-altered{"+m.preEncoded+"->"+ce+"}", "exchange %d: the backend sent %d bytes with Content-Encoding %q; the client got %d bytes with Content-Encoding %q (AE=%q)", ex.id, len(rs.body), m.preEncoded, len(got.body), ce, m.ae)
			}
			if ce == "gzip" && m.preEncoded == "" {
				x.Probe("compressed")
				if !gzEligible {
					why := "not-eligible"
					if !hasToken(m.ae) {
						why = "client-did-not-list-gzip"
					} else if len(rs.body) < minSize {
						why = "below-min-size"
					}
					x.Violate("C15", "C15/compressed-although-"+why, "exchange %d: response compressed although not eligible (AE=%q, %d bytes, min_size %d, headers %v)", ex.id, m.ae, len(rs.body), minSize, rs.hdr)
				}
			}
			if !gzEligible && ex.method != "HEAD" {
				if !bytes.Equal(got.body, rs.body) && ce == got.hdr.Get("Content-Encoding") && m.preEncoded == ce {
					x.Violate("C15", "C15/ineligible-response-altered", "exchange %d: response not eligible for compression but the client's bytes differ from the backend's (%d vs %d)", ex.id, len(got.body), len(rs.body))
				}
			}
			if clh := got.hdr.Get("Content-Length"); clh != "" && ex.method != "HEAD" && fmt.Sprint(len(got.body)) != clh {
				x.Violate("C15", "C15/content-length-mismatch", "exchange %d: Content-Length %s but %d body bytes", ex.id, clh, len(got.body))
			}
			if gzEligible {
				continue // compressed or not, the decoded content has been compared
			}
		}
		// ---------------- within the limits: unchanged ------------------------------
		if m.preEncoded != "" || (gzipActs && x.Prop == "C14") {
			continue
		}
		if wantSize && gzipActs && len(rs.body) > L2 {
			continue
		}
		checkTransparentAs(x, propOf(x, wantSize), env, ex, rh, th, map[string]int{})
	}
}

func propOf(x *X, wantSize bool) string {
	if x.Prop != "" {
		return x.Prop
	}
	if wantSize {
		return "C14"
	}
	return "C15"
}

func filterHdr(h []hdrKV, drop string) []hdrKV {
	var out []hdrKV
	for _, kv := range h {
		if kv.K != drop {
			out = append(out, kv)
		}
	}
	return out
}
