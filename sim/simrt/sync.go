package simrt

import (
	"cmp"
	"runtime"
	"slices"
	"sort"
	"strings"
	"sync"
	"sync/atomic"
)

// curTaskNoLockFree reports whether the caller is a free-running goroutine (no scheduler task).
func curTaskNoLockFree() bool { return taskFor() == nil }

// lockCore is the shared implementation of Mutex and RWMutex.
//
// Zero value is an unlocked lock (Helios embeds sync.Mutex values in structs).
type lockCore struct {
	mu       sync.Mutex
	cond     *sync.Cond // lazily created; only free-mode waiters use it
	id       uint64
	w        bool // write-locked
	r        int  // number of readers
	pendingW int  // writers that have announced themselves (block new readers)
	holderW  *Task
	acqPC    uintptr // micro mode: where the current write holder took the lock
	holdersR map[*Task]int
	holderG  uintptr         // free mode: goroutine holding the write lock
	readersG map[uintptr]int // free mode: goroutines holding read locks
}

func (l *lockCore) init() {
	if l.id == 0 {
		l.id = nextObj.Add(1)
	}
}

// holders returns the tasks currently holding the lock (micro mode only).
func (l *lockCore) holders() []*Task {
	l.mu.Lock()
	defer l.mu.Unlock()
	var hs []*Task
	if l.holderW != nil {
		hs = append(hs, l.holderW)
	}
	for t := range l.holdersR {
		hs = append(hs, t)
	}
	sort.Slice(hs, func(i, j int) bool { return pathLess(hs[i].Path, hs[j].Path) })
	return hs
}

func (l *lockCore) canWrite() bool { l.mu.Lock(); defer l.mu.Unlock(); return !l.w && l.r == 0 }
func (l *lockCore) canRead() bool  { l.mu.Lock(); defer l.mu.Unlock(); return !l.w && l.pendingW == 0 }

// free-mode registry of goroutines waiting for a lock (diagnosis of wedges)
type fwWaiter struct {
	pc    uintptr
	g     uintptr
	l     *lockCore
	write bool
}

var (
	fwMu      sync.Mutex
	fwWaiters = map[uint64]fwWaiter{} // waiter id -> who waits where for what
	fwNext    uint64
)

func fwWaiters0() map[uint64]fwWaiter { return fwWaiters }

func fwAddL(pc uintptr, l *lockCore, write bool) uint64 {
	fwMu.Lock()
	fwNext++
	id := fwNext
	fwWaiters[id] = fwWaiter{pc, getg(), l, write}
	fwMu.Unlock()
	return id
}

// FreeLockCycle looks for a cycle in the free-mode wait-for graph and returns the
// call sites of the waiters on it (sorted), or nil. Edges: a waiter waits for the
// goroutine holding the write lock; a waiting writer also waits for every goroutine
// holding a read lock; a reader held back by a waiting writer (writer preference, as
// in sync.RWMutex) waits for that writer. Self-deadlock is a cycle of length one.
func FreeLockCycle() []string {
	// copy the registry first: goroutines register (fwMu) while holding their lock's
	// own mutex, so the lock states must not be read with fwMu held
	fwMu.Lock()
	fwWaiters := make(map[uint64]fwWaiter, len(fwWaiters0()))
	for id, w := range fwWaiters0() {
		fwWaiters[id] = w
	}
	fwMu.Unlock()
	byG := map[uintptr]fwWaiter{}
	var ids []uint64
	for id := range fwWaiters {
		ids = append(ids, id)
	}
	sort.Slice(ids, func(i, j int) bool { return ids[i] < ids[j] })
	for _, id := range ids {
		w := fwWaiters[id]
		byG[w.g] = w
	}
	succ := func(w fwWaiter) []uintptr {
		var out []uintptr
		w.l.mu.Lock()
		if w.l.holderG != 0 {
			out = append(out, w.l.holderG)
		}
		if w.write {
			for g, n := range w.l.readersG {
				if n > 0 {
					out = append(out, g)
				}
			}
		}
		held := w.l.w
		w.l.mu.Unlock()
		if !w.write && !held {
			for _, id := range ids {
				o := fwWaiters[id]
				if o.l == w.l && o.write {
					out = append(out, o.g)
				}
			}
		}
		sort.Slice(out, func(i, j int) bool { return out[i] < out[j] })
		return out
	}
	best := []string(nil)
	for _, id := range ids {
		start := fwWaiters[id].g
		// breadth-first search for the shortest path from start back to start
		type node struct {
			g    uintptr
			path []string
		}
		queue := []node{{start, nil}}
		seen := map[uintptr]bool{}
		var found []string
		for len(queue) > 0 && found == nil {
			n := queue[0]
			queue = queue[1:]
			w, ok := byG[n.g]
			if !ok {
				continue // not waiting: it can still run
			}
			path := append(append([]string{}, n.path...), SiteOf(w.pc))
			for _, g := range succ(w) {
				if g == start {
					found = path
					break
				}
				if !seen[g] && len(path) < 16 {
					seen[g] = true
					queue = append(queue, node{g, path})
				}
			}
		}
		if found != nil {
			sort.Strings(found)
			if best == nil || len(found) < len(best) || (len(found) == len(best) && strings.Join(found, "+") < strings.Join(best, "+")) {
				best = found
			}
		}
	}
	return best
}

func fwDel(id uint64) {
	fwMu.Lock()
	delete(fwWaiters, id)
	fwMu.Unlock()
}

// FreeLockWaiters returns the call sites (file:line, sorted, distinct) at which
// free-mode goroutines are currently blocked waiting for an instrumented lock.
func FreeLockWaiters() []string {
	fwMu.Lock()
	seen := map[string]bool{}
	for _, w := range fwWaiters {
		seen[SiteOf(w.pc)] = true
	}
	fwMu.Unlock()
	out := make([]string, 0, len(seen))
	for s := range seen {
		out = append(out, s)
	}
	sort.Strings(out)
	return out
}

func resetFreeWaiters() {
	fwMu.Lock()
	fwWaiters = map[uint64]fwWaiter{}
	fwMu.Unlock()
}

func (l *lockCore) lock(kind string) {
	t := taskFor()
	if t == nil {
		checkDying()
		l.mu.Lock()
		l.init()
		l.pendingW++
		if l.w || l.r > 0 {
			id := fwAddL(sitePC(4), l, true)
			for l.w || l.r > 0 {
				if l.cond == nil {
					l.cond = sync.NewCond(&l.mu)
				}
				l.cond.Wait()
			}
			fwDel(id)
		}
		l.pendingW--
		l.w = true
		l.holderG = getg()
		l.mu.Unlock()
		return
	}
	pc := sitePC(4)
	l.mu.Lock()
	l.init()
	id := l.id
	l.mu.Unlock()
	t.yield(kind, id, pc)
	if t.isExiting() {
		return
	}
	l.mu.Lock()
	l.pendingW++
	l.mu.Unlock()
	for {
		l.mu.Lock()
		if !l.w && l.r == 0 {
			l.w = true
			l.pendingW--
			l.holderW = t
			l.acqPC = pc
			l.mu.Unlock()
			return
		}
		l.mu.Unlock()
		t.block(kind+"-wait", id, pc, l.canWrite, l)
		if t.isExiting() {
			return
		}
	}
}

// FreeYieldOnUnlock (free mode, race tier): a goroutine that has just released a lock gives
// up the processor. Always legal for a real scheduler, and it widens the window between an
// Unlock and the unprotected accesses that follow it -- the place where "I still have the
// data I read under the lock" races live -- so that the race detector gets to see them.
var FreeYieldOnUnlock atomic.Bool

// misuse reports an Unlock / RUnlock of a lock that is not held. The real sync package ends the
// process for that ("fatal error: sync: Unlock of unlocked RWMutex", not recoverable); here it is
// a panic in the offending goroutine, which the harness reports as a crash of Helios code. Not
// during teardown: a task that is being ended returns from Lock without the lock, and its
// deferred Unlock must stay harmless.
func (l *lockCore) misuse(what string) {
	if dying.Load() {
		return
	}
	if t := curTask(); t != nil && t.isExiting() {
		return
	}
	panic("sync: " + what + " (a fatal error, not a panic, in a real process: it ends Helios)")
}

func (l *lockCore) unlock() {
	l.mu.Lock()
	if !l.w {
		l.mu.Unlock()
		l.misuse("Unlock of unlocked lock")
		return
	}
	l.w = false
	l.holderW = nil
	l.holderG = 0
	if l.cond != nil {
		l.cond.Broadcast()
	}
	l.mu.Unlock()
	if FreeYieldOnUnlock.Load() && curTaskNoLockFree() {
		runtime.Gosched()
	}
}

func (l *lockCore) rlock() {
	t := taskFor()
	if t == nil {
		checkDying()
		l.mu.Lock()
		l.init()
		if l.w || l.pendingW > 0 {
			id := fwAddL(sitePC(4), l, false)
			for l.w || l.pendingW > 0 {
				if l.cond == nil {
					l.cond = sync.NewCond(&l.mu)
				}
				l.cond.Wait()
			}
			fwDel(id)
		}
		l.r++
		if l.readersG == nil {
			l.readersG = map[uintptr]int{}
		}
		l.readersG[getg()]++
		l.mu.Unlock()
		return
	}
	pc := sitePC(4)
	l.mu.Lock()
	l.init()
	id := l.id
	l.mu.Unlock()
	t.yield("RLock", id, pc)
	if t.isExiting() {
		return
	}
	for {
		l.mu.Lock()
		if !l.w && l.pendingW == 0 {
			l.r++
			if l.holdersR == nil {
				l.holdersR = map[*Task]int{}
			}
			l.holdersR[t]++
			l.mu.Unlock()
			return
		}
		l.mu.Unlock()
		t.block("RLock-wait", id, pc, l.canRead, l)
		if t.isExiting() {
			return
		}
	}
}

func (l *lockCore) runlock() {
	l.mu.Lock()
	if l.r == 0 {
		l.mu.Unlock()
		l.misuse("RUnlock of unlocked RWMutex")
		return
	}
	l.r--
	if l.readersG != nil {
		g := getg()
		if l.readersG[g] > 1 {
			l.readersG[g]--
		} else {
			delete(l.readersG, g)
		}
		if l.r == 0 {
			for k := range l.readersG {
				delete(l.readersG, k)
			}
		}
	}
	if l.holdersR != nil {
		if t := curTask(); t != nil {
			if l.holdersR[t] > 1 {
				l.holdersR[t]--
			} else {
				delete(l.holdersR, t)
			}
		} else if l.r == 0 {
			for k := range l.holdersR {
				delete(l.holdersR, k)
			}
		}
	}
	if l.cond != nil {
		l.cond.Broadcast()
	}
	l.mu.Unlock()
}

// Mutex replaces sync.Mutex.
type Mutex struct{ c lockCore }

func (m *Mutex) Lock()         { m.c.lock("Lock") }
func (m *Mutex) Unlock()       { m.c.unlock() }
func (m *Mutex) TryLock() bool { return m.c.tryLock() }

// tryLock / tryRLock: a scheduling point like Lock (the others may run first), then the attempt;
// like sync's, a try for reading fails while a writer holds the lock or waits for it.
func (l *lockCore) tryLock() bool {
	t := taskFor()
	pc := sitePC(4)
	if t != nil {
		l.mu.Lock()
		l.init()
		id := l.id
		l.mu.Unlock()
		t.yield("TryLock", id, pc)
		if t.isExiting() {
			return false
		}
	}
	l.mu.Lock()
	defer l.mu.Unlock()
	l.init()
	if l.w || l.r > 0 {
		return false
	}
	l.w = true
	if t != nil {
		l.holderW = t
		l.acqPC = pc
	} else {
		l.holderG = getg()
	}
	return true
}

func (l *lockCore) tryRLock() bool {
	t := taskFor()
	pc := sitePC(4)
	if t != nil {
		l.mu.Lock()
		l.init()
		id := l.id
		l.mu.Unlock()
		t.yield("TryRLock", id, pc)
		if t.isExiting() {
			return false
		}
	}
	l.mu.Lock()
	defer l.mu.Unlock()
	l.init()
	if l.w || l.pendingW > 0 {
		return false
	}
	l.r++
	if t != nil {
		if l.holdersR == nil {
			l.holdersR = map[*Task]int{}
		}
		l.holdersR[t]++
	} else {
		if l.readersG == nil {
			l.readersG = map[uintptr]int{}
		}
		l.readersG[getg()]++
	}
	return true
}

// RWMutex replaces sync.RWMutex.
type RWMutex struct{ c lockCore }

func (m *RWMutex) Lock()          { m.c.lock("Lock") }
func (m *RWMutex) Unlock()        { m.c.unlock() }
func (m *RWMutex) RLock()         { m.c.rlock() }
func (m *RWMutex) RUnlock()       { m.c.runlock() }
func (m *RWMutex) TryLock() bool  { return m.c.tryLock() }
func (m *RWMutex) TryRLock() bool { return m.c.tryRLock() }

// RLocker mirrors sync.RWMutex.RLocker.
func (m *RWMutex) RLocker() sync.Locker { return (*rlocker)(m) }

type rlocker RWMutex

func (r *rlocker) Lock()   { (*RWMutex)(r).RLock() }
func (r *rlocker) Unlock() { (*RWMutex)(r).RUnlock() }

func curTaskNoLock() *Task { return curTask() }

// ---------------------------------------------------------------------------

// WaitGroup replaces sync.WaitGroup.
type WaitGroup struct {
	mu      sync.Mutex
	cond    *sync.Cond
	n       int
	waiters int
	id      uint64
}

// WGMisuse is called (if set) when Add with a positive delta happens while
// the counter is zero and a Wait is in progress — documented misuse of
// sync.WaitGroup ("calls with a positive delta that occur when the counter is
// zero must happen before a Wait").
var WGMisuse func(site string)

func (wg *WaitGroup) Add(delta int) {
	t := taskFor()
	var pc uintptr
	if t != nil {
		pc = sitePC(3)
		wg.mu.Lock()
		if wg.id == 0 {
			wg.id = nextObj.Add(1)
		}
		id := wg.id
		wg.mu.Unlock()
		kind := "WG.Add"
		if delta < 0 {
			kind = "WG.Done"
		}
		t.yield(kind, id, pc)
		if t.isExiting() {
			return
		}
	} else {
		checkDying()
	}
	wg.mu.Lock()
	if delta > 0 && wg.n == 0 && wg.waiters > 0 {
		if f := WGMisuse; f != nil {
			if pc == 0 {
				pc = sitePC(3)
			}
			f(SiteOf(pc))
		}
	}
	wg.n += delta
	if wg.n < 0 {
		wg.mu.Unlock()
		panic("sync: negative WaitGroup counter")
	}
	if wg.n == 0 && wg.cond != nil {
		wg.cond.Broadcast()
	}
	wg.mu.Unlock()
}

func (wg *WaitGroup) Done() { wg.addNoSkip(-1) }

// addNoSkip keeps callerPC pointing at the Helios call site for Done().
func (wg *WaitGroup) addNoSkip(delta int) {
	t := taskFor()
	if t != nil {
		pc := sitePC(4)
		wg.mu.Lock()
		if wg.id == 0 {
			wg.id = nextObj.Add(1)
		}
		id := wg.id
		wg.mu.Unlock()
		t.yield("WG.Done", id, pc)
		if t.isExiting() {
			return
		}
	} else {
		checkDyingSoft()
	}
	wg.mu.Lock()
	wg.n += delta
	if wg.n < 0 {
		wg.mu.Unlock()
		panic("sync: negative WaitGroup counter")
	}
	if wg.n == 0 && wg.cond != nil {
		wg.cond.Broadcast()
	}
	wg.mu.Unlock()
}

// checkDyingSoft: Done() is usually deferred; never Goexit from it.
func checkDyingSoft() {}

func (wg *WaitGroup) Wait() {
	t := taskFor()
	if t == nil {
		checkDying()
		wg.mu.Lock()
		wg.waiters++
		for wg.n > 0 {
			if wg.cond == nil {
				wg.cond = sync.NewCond(&wg.mu)
			}
			wg.cond.Wait()
		}
		wg.waiters--
		wg.mu.Unlock()
		return
	}
	pc := sitePC(3)
	wg.mu.Lock()
	if wg.id == 0 {
		wg.id = nextObj.Add(1)
	}
	id := wg.id
	wg.mu.Unlock()
	t.yield("WG.Wait", id, pc)
	if t.isExiting() {
		return
	}
	wg.mu.Lock()
	wg.waiters++
	wg.mu.Unlock()
	for {
		wg.mu.Lock()
		if wg.n == 0 {
			wg.waiters--
			wg.mu.Unlock()
			return
		}
		wg.mu.Unlock()
		t.block("WG.Wait-wait", id, pc, func() bool { wg.mu.Lock(); defer wg.mu.Unlock(); return wg.n == 0 }, nil)
		if t.isExiting() {
			return
		}
	}
}

// Go mirrors sync.WaitGroup.Go (Go 1.25+).
func (wg *WaitGroup) Go(f func()) {
	wg.Add(1)
	Go("WaitGroup.Go", func() {
		defer wg.Done()
		f()
	})
}

// ---------------------------------------------------------------------------

// Map replaces sync.Map. It keeps insertion order so that Range is
// deterministic (sync.Map.Range follows Go's randomised map order, which would
// break replay).
type Map struct {
	mu    sync.Mutex
	m     map[any]*mapEntry
	order []*mapEntry
	id    uint64
}

type mapEntry struct {
	k, v    any
	deleted bool
}

func (m *Map) op(kind string) {
	t := taskFor()
	if t == nil {
		checkDying()
		return
	}
	pc := sitePC(4)
	m.mu.Lock()
	if m.id == 0 {
		m.id = nextObj.Add(1)
	}
	id := m.id
	m.mu.Unlock()
	t.yield(kind, id, pc)
}

func (m *Map) Load(key any) (any, bool) {
	m.op("Map.Load")
	m.mu.Lock()
	defer m.mu.Unlock()
	if e, ok := m.m[key]; ok {
		return e.v, true
	}
	return nil, false
}

func (m *Map) Store(key, value any) {
	m.op("Map.Store")
	m.mu.Lock()
	defer m.mu.Unlock()
	m.storeLocked(key, value)
}

func (m *Map) storeLocked(key, value any) {
	if m.m == nil {
		m.m = map[any]*mapEntry{}
	}
	if e, ok := m.m[key]; ok {
		e.v = value
		return
	}
	e := &mapEntry{k: key, v: value}
	m.m[key] = e
	m.order = append(m.order, e)
}

func (m *Map) LoadOrStore(key, value any) (any, bool) {
	m.op("Map.LoadOrStore")
	m.mu.Lock()
	defer m.mu.Unlock()
	if e, ok := m.m[key]; ok {
		return e.v, true
	}
	m.storeLocked(key, value)
	return value, false
}

func (m *Map) LoadAndDelete(key any) (any, bool) {
	m.op("Map.LoadAndDelete")
	m.mu.Lock()
	defer m.mu.Unlock()
	return m.deleteLocked(key)
}

func (m *Map) deleteLocked(key any) (any, bool) {
	e, ok := m.m[key]
	if !ok {
		return nil, false
	}
	delete(m.m, key)
	e.deleted = true
	// compact lazily
	if len(m.order) > 32 && len(m.order) > 2*len(m.m) {
		o := m.order[:0]
		for _, x := range m.order {
			if !x.deleted {
				o = append(o, x)
			}
		}
		m.order = o
	}
	return e.v, true
}

func (m *Map) Delete(key any) {
	m.op("Map.Delete")
	m.mu.Lock()
	defer m.mu.Unlock()
	m.deleteLocked(key)
}

func (m *Map) Swap(key, value any) (any, bool) {
	m.op("Map.Swap")
	m.mu.Lock()
	defer m.mu.Unlock()
	if e, ok := m.m[key]; ok {
		old := e.v
		e.v = value
		return old, true
	}
	m.storeLocked(key, value)
	return nil, false
}

func (m *Map) CompareAndSwap(key, old, new any) bool {
	m.op("Map.CompareAndSwap")
	m.mu.Lock()
	defer m.mu.Unlock()
	if e, ok := m.m[key]; ok && e.v == old {
		e.v = new
		return true
	}
	return false
}

func (m *Map) CompareAndDelete(key, old any) bool {
	m.op("Map.CompareAndDelete")
	m.mu.Lock()
	defer m.mu.Unlock()
	if e, ok := m.m[key]; ok && e.v == old {
		m.deleteLocked(key)
		return true
	}
	return false
}

// Range visits entries in insertion order over a snapshot taken at the call.
func (m *Map) Range(f func(key, value any) bool) {
	m.op("Map.Range")
	m.mu.Lock()
	snap := make([]*mapEntry, 0, len(m.order))
	for _, e := range m.order {
		if !e.deleted {
			snap = append(snap, e)
		}
	}
	m.mu.Unlock()
	for _, e := range snap {
		m.mu.Lock()
		del, v := e.deleted, e.v
		m.mu.Unlock()
		if del {
			continue
		}
		if !f(e.k, v) {
			return
		}
	}
}

func (m *Map) Clear() {
	m.op("Map.Clear")
	m.mu.Lock()
	defer m.mu.Unlock()
	for _, e := range m.order {
		e.deleted = true
	}
	m.m = nil
	m.order = nil
}

// SortedKeys returns the keys of m in ascending order. Substituted for `range m` over maps
// in Helios (Go randomises map iteration order; it is the one source of randomness inside
// Helios itself): entries deleted during the loop are skipped by the rewritten loop header,
// entries inserted during the loop are not visited -- both allowed by the language.
func SortedKeys[K cmp.Ordered, V any](m map[K]V) []K {
	keys := make([]K, 0, len(m))
	for k := range m {
		keys = append(keys, k)
	}
	slices.Sort(keys)
	return keys
}
