// Package simrt is the seam layer of the Helios simulator.
//
// The instrumenter (tools/vinstr) rewrites Helios sources so that every
// sync.Mutex / sync.RWMutex / sync.WaitGroup / sync.Map, every sync/atomic
// call, every `go` statement, time.NewTicker, net.Dialer, &http.Transport{}
// and &http.Client{} goes through this package.
//
// Two behaviours:
//
//   - micro (a *Sched is installed): every goroutine that touches a seam is a
//     Task. Each seam operation first parks the task ("yield"); the scheduler
//     goroutine (the root of a testing/synctest bubble) waits for quiescence
//     and releases exactly one enabled task per step, chosen by the run's
//     choice source. Lock acquisition is decided by the simulator's own holder
//     tables, which also give the wait-for graph for deadlock detection.
//
//   - free (no Sched installed): operations execute immediately; contended
//     locks wait on a sync.Cond so that the goroutine is *durably* blocked in
//     the eyes of synctest (a goroutine stuck on a real sync.Mutex is not, and
//     a Helios-level deadlock would hang in wall-clock time).
package simrt

import (
	"fmt"
	"hash/fnv"
	"runtime"
	"runtime/debug"
	"sort"
	"strings"
	"sync"
	"sync/atomic"
	"testing/synctest"
	"time"
)

// ---------------------------------------------------------------------------
// globals

var (
	curSched atomic.Pointer[Sched]
	dying    atomic.Bool
	rootG    atomic.Uintptr
	maxTick  atomic.Int64 // longest ticker period registered in this run (ns)
	liveBG   atomic.Int64 // goroutines started through Go() and not yet finished
	nextObj  atomic.Uint64
)

// ResetRun clears per-run global state. Call at the start of every bubble.
func ResetRun() {
	curSched.Store(nil)
	dying.Store(false)
	rootG.Store(getg())
	maxTick.Store(0)
	liveBG.Store(0)
	nextObj.Store(0)
	rtHook.Store(nil)
	dialHook.Store(nil)
	probeTransport.Store(nil)
	resetFreeWaiters()
	TakeFreePanics()
}

// LiveBackground reports how many goroutines started through Go() are still alive.
func LiveBackground() int64 { return liveBG.Load() }

// MaxTick is the longest ticker period registered through NewTicker in this run.
func MaxTick() time.Duration { return time.Duration(maxTick.Load()) }

// ---------------------------------------------------------------------------
// tasks

const (
	stRunning = iota
	stYield
	stBlock
	stDone
)

// Task is a goroutine known to the scheduler.
type Task struct {
	s          *Sched
	Path       []int
	Name       string
	Background bool
	wake       chan struct{}

	// all below protected by s.mu
	state    int
	opKind   string
	opObj    uint64
	opPC     uintptr
	pred     func() bool
	waitLock *lockCore
	stalledUntil time.Time // stall fault: not schedulable before this virtual instant
	children int
	exiting  bool
	Panic    any
	g        uintptr
}

func (t *Task) ID() string {
	var b strings.Builder
	for i, p := range t.Path {
		if i > 0 {
			b.WriteByte('.')
		}
		fmt.Fprintf(&b, "%d", p)
	}
	return b.String()
}

func (t *Task) String() string { return t.ID() + ":" + t.Name }

// Done reports whether the task function has returned (or exited).
func (t *Task) Done() bool {
	t.s.mu.Lock()
	defer t.s.mu.Unlock()
	return t.state == stDone
}

func pathLess(a, b []int) bool {
	for i := 0; i < len(a) && i < len(b); i++ {
		if a[i] != b[i] {
			return a[i] < b[i]
		}
	}
	return len(a) < len(b)
}

// SchedError describes why a scheduler run stopped abnormally.
type SchedError struct {
	Kind   string // "deadlock" | "no-progress" | "step-budget"
	Detail string
	Sites  []string // file:line of the operations involved (sorted)
}

func (e *SchedError) Error() string { return e.Kind + ": " + e.Detail }

// Policy constants.
const (
	PolicyUniform = 0 // uniform choice among enabled tasks at every step
	PolicySticky  = 1 // keep running the current task, preempt with probability 1/PreemptDenom
	PolicyPCT     = 2 // random priorities with a few priority-change points
)

// Sched is the cooperative seeded scheduler of a micro-sim run.
type Sched struct {
	mu      sync.Mutex
	tasks   []*Task
	byG     map[uintptr]*Task
	arrived chan struct{}
	choose  func(n int, label string) int

	rootChildren int
	last         *Task

	Policy       int
	PreemptDenom int
	pctPrio      map[*Task]int
	pctChange    map[int]bool
	pctNext      int

	Steps     int // scheduling steps taken
	Decisions int // steps with >= 2 alternatives
	StepLimit int
	Adopted   int

	KeepTrace bool
	Trace     []string
	th        uint64 // running hash of (task, pc) sequence
	Sites     map[uintptr]int

	BgPanics []string
	Panics   []TaskPanic // every task function that ended with a panic (not Goexit)

	// Stall fault: with probability 1/StallDenom per scheduling step (while StallBudget
	// lasts) one enabled task is descheduled for a drawn span of *virtual* time -- a
	// goroutine that lost the CPU (GC pause, overloaded host) in the middle of an
	// operation while timers fire and other goroutines go on. Off when StallDenom == 0.
	StallDenom  int
	StallBudget int
	StallDurs   []time.Duration
	Stalls      int
	OnStall     func(task string, site string, d time.Duration)
}

// TaskPanic describes a panic that ended a task.
type TaskPanic struct {
	Task  string
	Value string
	Stack string
}

// NewSched installs a scheduler for the current bubble. choose(n,label) must
// return a value in [0,n) and is the only source of schedule decisions.
func NewSched(choose func(n int, label string) int) *Sched {
	s := &Sched{
		byG:          map[uintptr]*Task{},
		arrived:      make(chan struct{}, 1),
		choose:       choose,
		PreemptDenom: 4,
		StepLimit:    200000,
		Sites:        map[uintptr]int{},
		th:           14695981039346656037,
	}
	curSched.Store(s)
	return s
}

// InterleavingHash is a hash of the (task, site) sequence scheduled so far.
func (s *Sched) InterleavingHash() uint64 { return s.th }

// SetPCT switches to PCT-style scheduling with the given change points (step indices).
func (s *Sched) SetPCT(changePoints []int) {
	s.Policy = PolicyPCT
	s.pctPrio = map[*Task]int{}
	s.pctChange = map[int]bool{}
	for _, c := range changePoints {
		s.pctChange[c] = true
	}
	s.pctNext = 1 << 20
}

func (s *Sched) notify() {
	select {
	case s.arrived <- struct{}{}:
	default:
	}
}

func curTask() *Task {
	s := curSched.Load()
	if s == nil {
		return nil
	}
	g := getg()
	s.mu.Lock()
	t := s.byG[g]
	s.mu.Unlock()
	return t
}

// taskFor returns the task of the calling goroutine in micro mode, adopting
// an unknown goroutine as a new task. Returns nil in free mode and for the root.
func taskFor() *Task {
	s := curSched.Load()
	if s == nil {
		return nil
	}
	g := getg()
	if g == rootG.Load() {
		return nil
	}
	s.mu.Lock()
	t := s.byG[g]
	if t == nil {
		// Unknown goroutine touching a seam: adopt it so that it is scheduled
		// like everyone else. Counted; expected to be zero.
		s.Adopted++
		t = &Task{s: s, Path: []int{1000 + s.Adopted}, Name: "adopted", wake: make(chan struct{}, 1), g: g, Background: true}
		s.byG[g] = t
		s.tasks = append(s.tasks, t)
	}
	s.mu.Unlock()
	return t
}

// Spawn starts fn as a workload task. May be called from the root or a task.
func (s *Sched) Spawn(name string, fn func()) *Task {
	return s.spawn(name, false, fn)
}

func (s *Sched) spawn(name string, background bool, fn func()) *Task {
	parent := curTask()
	s.mu.Lock()
	var path []int
	if parent != nil {
		path = append(append([]int{}, parent.Path...), parent.children)
		parent.children++
	} else {
		path = []int{s.rootChildren}
		s.rootChildren++
	}
	t := &Task{s: s, Path: path, Name: name, Background: background, wake: make(chan struct{}, 1), state: stRunning}
	s.tasks = append(s.tasks, t)
	s.mu.Unlock()
	if background {
		liveBG.Add(1)
	}
	go func() {
		g := getg()
		s.mu.Lock()
		t.g = g
		s.byG[g] = t
		s.mu.Unlock()
		defer func() {
			r := recover()
			var stack []byte
			if r != nil {
				stack = debug.Stack()
			}
			s.mu.Lock()
			if r != nil {
				t.Panic = r
				if background {
					s.BgPanics = append(s.BgPanics, fmt.Sprintf("%s: %v", t, r))
				}
				s.Panics = append(s.Panics, TaskPanic{Task: t.String(), Value: fmt.Sprint(r), Stack: string(stack)})
			}
			t.state = stDone
			delete(s.byG, g)
			s.mu.Unlock()
			if background {
				liveBG.Add(-1)
			}
			s.notify()
		}()
		t.yield("start", 0, 0)
		fn()
	}()
	return t
}

// yield parks the calling task until the scheduler releases it.
func (t *Task) yield(kind string, obj uint64, pc uintptr) {
	s := t.s
	s.mu.Lock()
	if t.exiting {
		s.mu.Unlock()
		return
	}
	t.state = stYield
	t.opKind, t.opObj, t.opPC = kind, obj, pc
	t.pred, t.waitLock = nil, nil
	s.mu.Unlock()
	s.notify()
	<-t.wake
	t.afterWake()
}

// block parks the calling task until pred() holds and the scheduler picks it.
func (t *Task) block(kind string, obj uint64, pc uintptr, pred func() bool, l *lockCore) {
	s := t.s
	s.mu.Lock()
	if t.exiting {
		s.mu.Unlock()
		return
	}
	t.state = stBlock
	t.opKind, t.opObj, t.opPC = kind, obj, pc
	t.pred, t.waitLock = pred, l
	s.mu.Unlock()
	s.notify()
	<-t.wake
	t.afterWake()
}

func (t *Task) afterWake() {
	if dying.Load() {
		t.s.mu.Lock()
		t.exiting = true
		t.s.mu.Unlock()
		runtime.Goexit()
	}
}

func (t *Task) isExiting() bool {
	t.s.mu.Lock()
	e := t.exiting
	t.s.mu.Unlock()
	return e
}

// Block is a scheduler-visible blocking operation for harness code: the
// calling task parks until pred() is true. In free mode it polls on the fake
// clock (durably blocking).
func Block(label string, pred func() bool) {
	t := taskFor()
	if t == nil {
		for !pred() {
			if dying.Load() {
				runtime.Goexit()
			}
			time.Sleep(time.Millisecond)
		}
		return
	}
	for {
		t.block("harness:"+label, 0, 0, pred, nil)
		if t.isExiting() {
			return
		}
		t.s.mu.Lock()
		ok := pred()
		t.s.mu.Unlock()
		if ok {
			return
		}
	}
}

// Yield is an explicit scheduling point for harness code.
func Yield(label string) {
	if t := taskFor(); t != nil {
		t.yield("harness:"+label, 0, 0)
	}
}

// sitePC returns the pc of the frame `skip` levels above runtime.Callers
// (0 = Callers, 1 = sitePC, 2 = the simrt function calling sitePC, ...).
func sitePC(skip int) uintptr {
	var pcs [1]uintptr
	runtime.Callers(skip, pcs[:])
	return pcs[0]
}

var siteCache sync.Map // pc -> string

// SiteOf resolves a recorded pc to "file:line" (path relative to the repo).
func SiteOf(pc uintptr) string {
	if pc == 0 {
		return "-"
	}
	if v, ok := siteCache.Load(pc); ok {
		return v.(string)
	}
	fr, _ := runtime.CallersFrames([]uintptr{pc}).Next()
	f := fr.File
	if i := strings.Index(f, "/internal/"); i >= 0 {
		f = f[i+1:]
	} else if i := strings.Index(f, "/cmd/"); i >= 0 {
		f = f[i+1:]
	}
	str := fmt.Sprintf("%s:%d", f, fr.Line)
	siteCache.Store(pc, str)
	return str
}

// ---------------------------------------------------------------------------
// the scheduling loop

func (s *Sched) enabledLocked() []*Task {
	var e []*Task
	var now time.Time
	if s.Stalls > 0 {
		now = time.Now()
	}
	for _, t := range s.tasks {
		if s.Stalls > 0 && !t.stalledUntil.IsZero() {
			if now.Before(t.stalledUntil) {
				continue
			}
			t.stalledUntil = time.Time{}
		}
		switch t.state {
		case stYield:
			e = append(e, t)
		case stBlock:
			if t.pred == nil || t.pred() {
				e = append(e, t)
			}
		}
	}
	sort.Slice(e, func(i, j int) bool { return pathLess(e[i].Path, e[j].Path) })
	return e
}

// AllWorkloadDone reports whether every non-background task has finished.
func (s *Sched) AllWorkloadDone() bool {
	s.mu.Lock()
	defer s.mu.Unlock()
	for _, t := range s.tasks {
		if !t.Background && t.state != stDone {
			return false
		}
	}
	return true
}

func (s *Sched) pick(e []*Task) *Task {
	if len(e) == 1 {
		return e[0]
	}
	s.Decisions++
	// current task first, so that choice 0 == "keep running"
	if s.last != nil {
		for i, t := range e {
			if t == s.last {
				copy(e[1:i+1], e[0:i])
				e[0] = t
				break
			}
		}
	}
	switch s.Policy {
	case PolicySticky:
		if e[0] == s.last {
			if s.choose(s.PreemptDenom, "preempt") != 1 {
				return e[0]
			}
			return e[1+s.choose(len(e)-1, "sched")]
		}
		return e[s.choose(len(e), "sched")]
	case PolicyPCT:
		if s.pctChange[s.Steps] && s.last != nil {
			s.pctNext--
			s.pctPrio[s.last] = -(1<<20 - s.pctNext) // lower than every initial priority
		}
		best := -1
		for i, t := range e {
			if _, ok := s.pctPrio[t]; !ok {
				s.pctPrio[t] = 1 + s.choose(1000, "pct-prio")
			}
			if best < 0 || s.pctPrio[t] > s.pctPrio[e[best]] {
				best = i
			}
		}
		return e[best]
	default:
		return e[s.choose(len(e), "sched")]
	}
}

func (s *Sched) release(t *Task, alts int) {
	s.Steps++
	s.last = t
	// hash (task path, pc)
	h := s.th
	for _, p := range t.Path {
		h = (h ^ uint64(p+1)) * 1099511628211
	}
	h = (h ^ uint64(t.opPC)) * 1099511628211
	h = (h ^ 0xff) * 1099511628211
	s.th = h
	if t.opPC != 0 {
		s.Sites[t.opPC]++
	}
	if s.KeepTrace {
		s.Trace = append(s.Trace, fmt.Sprintf("%d: %s %s @%s alts=%d", s.Steps, t, t.opKind, SiteOf(t.opPC), alts))
	}
	t.state = stRunning
	t.wake <- struct{}{}
}

// Run schedules tasks until stop() is true (checked at quiescent points), or
// until virtual time `until` has passed (zero = no deadline) with nothing
// enabled. idleReturn makes Run return as soon as nothing is enabled.
// maxIdle bounds how much virtual time Run will wait with nothing enabled and
// stop() false before reporting no-progress.
func (s *Sched) Run(stop func() bool, until time.Time, idleReturn bool, maxIdle time.Duration) *SchedError {
	idleStart := time.Time{}
	for {
		synctest.Wait()
		if stop != nil && stop() {
			return nil
		}
		s.mu.Lock()
		if s.Steps >= s.StepLimit {
			s.mu.Unlock()
			return &SchedError{Kind: "step-budget", Detail: fmt.Sprintf("step limit %d reached", s.StepLimit)}
		}
		e := s.enabledLocked()
		if len(e) > 0 {
			idleStart = time.Time{}
			if s.StallDenom > 0 && s.StallBudget > 0 && len(s.StallDurs) > 0 && s.choose(s.StallDenom, "stall?") == 0 {
				t := e[0]
				if len(e) > 1 {
					t = e[s.choose(len(e), "stall-task")]
				}
				d := s.StallDurs[s.choose(len(s.StallDurs), "stall-for")]
				t.stalledUntil = time.Now().Add(d)
				s.StallBudget--
				s.Stalls++
				time.AfterFunc(d, func() {
					select {
					case s.arrived <- struct{}{}:
					default:
					}
				})
				name, site := t.String(), SiteOf(t.opPC)
				s.mu.Unlock()
				if s.OnStall != nil {
					s.OnStall(name, site, d)
				}
				continue
			}
			n := len(e)
			t := s.pick(e)
			s.release(t, n)
			s.mu.Unlock()
			continue
		}
		// nothing enabled
		if err := s.findDeadlockLocked(); err != nil {
			s.mu.Unlock()
			return err
		}
		s.mu.Unlock()
		if idleReturn {
			return nil
		}
		now := time.Now()
		if !until.IsZero() && !now.Before(until) {
			return nil
		}
		if idleStart.IsZero() {
			idleStart = now
		}
		wait := maxIdle - now.Sub(idleStart)
		if stop == nil || maxIdle <= 0 {
			wait = time.Hour * 24 * 365
		}
		if wait <= 0 {
			return s.noProgress()
		}
		if !until.IsZero() && until.Sub(now) < wait {
			wait = until.Sub(now)
		}
		tm := time.NewTimer(wait)
		select {
		case <-s.arrived:
			tm.Stop()
		case <-tm.C:
		}
	}
}

func (s *Sched) noProgress() *SchedError {
	s.mu.Lock()
	defer s.mu.Unlock()
	var parts, sites []string
	for _, t := range s.tasks {
		if t.state == stDone || t.Background {
			continue
		}
		parts = append(parts, fmt.Sprintf("%s state=%d op=%s@%s", t, t.state, t.opKind, SiteOf(t.opPC)))
		if t.state == stBlock || t.state == stYield {
			sites = append(sites, SiteOf(t.opPC))
		}
	}
	sort.Strings(sites)
	return &SchedError{Kind: "no-progress", Detail: strings.Join(parts, "; "), Sites: sites}
}

// findDeadlockLocked looks for a cycle in the wait-for graph of blocked tasks.
func (s *Sched) findDeadlockLocked() *SchedError {
	next := map[*Task][]*Task{}
	for _, t := range s.tasks {
		if t.state != stBlock || t.waitLock == nil {
			continue
		}
		next[t] = t.waitLock.holders()
		// a lock still held by a task that has ended can never be released: leaked lock
		for _, h := range next[t] {
			if h != nil && h.state == stDone {
				return &SchedError{Kind: "deadlock", Detail: fmt.Sprintf("%s waits %s@%s for a lock that %s took at %s and still held when it ended (leaked lock: no goroutine can release it)", t, t.opKind, SiteOf(t.opPC), h, SiteOf(t.waitLock.acqPC)), Sites: []string{"leaked-lock@" + SiteOf(t.waitLock.acqPC)}}
			}
		}
	}
	// DFS for a cycle
	color := map[*Task]int{}
	var stack []*Task
	var cyc []*Task
	var dfs func(t *Task) bool
	dfs = func(t *Task) bool {
		color[t] = 1
		stack = append(stack, t)
		for _, n := range next[t] {
			if n == nil {
				continue
			}
			if color[n] == 1 {
				for i, x := range stack {
					if x == n {
						cyc = append([]*Task{}, stack[i:]...)
						break
					}
				}
				return true
			}
			if color[n] == 0 {
				if _, blocked := next[n]; blocked && dfs(n) {
					return true
				}
			}
		}
		stack = stack[:len(stack)-1]
		color[t] = 2
		return false
	}
	keys := make([]*Task, 0, len(next))
	for t := range next {
		keys = append(keys, t)
	}
	sort.Slice(keys, func(i, j int) bool { return pathLess(keys[i].Path, keys[j].Path) })
	for _, t := range keys {
		if color[t] == 0 && dfs(t) {
			var parts, sites []string
			for _, c := range cyc {
				parts = append(parts, fmt.Sprintf("%s waits %s@%s", c, c.opKind, SiteOf(c.opPC)))
				sites = append(sites, SiteOf(c.opPC))
			}
			sort.Strings(sites)
			return &SchedError{Kind: "deadlock", Detail: strings.Join(parts, " -> "), Sites: sites}
		}
	}
	return nil
}

// TakePanics returns and clears the recorded task panics.
func (s *Sched) TakePanics() []TaskPanic {
	s.mu.Lock()
	defer s.mu.Unlock()
	p := s.Panics
	s.Panics = nil
	return p
}

// Teardown makes every task exit at its next seam operation and waits (on the
// fake clock) long enough for ticker-driven loops to wake up once. Returns the
// number of tasks that could not be made to exit.
func (s *Sched) Teardown() int {
	dying.Store(true)
	wakeAll := func() {
		synctest.Wait()
		s.mu.Lock()
		for _, t := range s.tasks {
			if t.state == stYield || t.state == stBlock {
				t.state = stRunning
				select {
				case t.wake <- struct{}{}:
				default:
				}
			}
		}
		s.mu.Unlock()
		synctest.Wait()
	}
	for i := 0; i < 3; i++ {
		wakeAll()
	}
	if d := MaxTick(); d > 0 {
		time.Sleep(d + time.Second)
		for i := 0; i < 3; i++ {
			wakeAll()
		}
	}
	s.mu.Lock()
	left := 0
	for _, t := range s.tasks {
		if t.state != stDone {
			left++
		}
	}
	s.mu.Unlock()
	return left
}

// TeardownFree is the free-mode counterpart: background goroutines exit at
// their next seam operation after waking from their tickers.
func TeardownFree() int64 {
	dying.Store(true)
	synctest.Wait()
	if d := MaxTick(); d > 0 {
		time.Sleep(d + time.Second)
	}
	synctest.Wait()
	return liveBG.Load()
}

// Dying reports whether teardown is in progress.
func Dying() bool { return dying.Load() }

// checkDying lets a free-mode goroutine exit during teardown.
func checkDying() {
	if dying.Load() && getg() != rootG.Load() {
		runtime.Goexit()
	}
}

// HashString is a small helper used by harness code for stable hashing.
func HashString(parts ...string) uint64 {
	h := fnv.New64a()
	for _, p := range parts {
		h.Write([]byte(p))
		h.Write([]byte{0})
	}
	return h.Sum64()
}

// ---------------------------------------------------------------------------
// Go / tickers

// Go replaces a `go` statement in instrumented code.
func Go(site string, fn func()) {
	if s := curSched.Load(); s != nil {
		s.spawn("go@"+site, true, fn)
		return
	}
	liveBG.Add(1)
	go func() {
		defer liveBG.Add(-1)
		// a panic in a goroutine Helios started itself ends the real process; here it is
		// recorded (with its stack) and reported by the harness at the end of the run
		defer func() {
			if r := recover(); r != nil && !dying.Load() {
				st := debug.Stack()
				freePanicMu.Lock()
				freePanics = append(freePanics, TaskPanic{Task: "go@" + site, Value: fmt.Sprint(r), Stack: string(st)})
				freePanicMu.Unlock()
			}
		}()
		fn()
	}()
}

var (
	freePanicMu sync.Mutex
	freePanics  []TaskPanic
)

// TakeFreePanics returns (and forgets) the panics that ended free-mode goroutines
// started by Helios code before teardown began.
func TakeFreePanics() []TaskPanic {
	freePanicMu.Lock()
	defer freePanicMu.Unlock()
	p := freePanics
	freePanics = nil
	return p
}

// NewTicker replaces time.NewTicker: same ticker, but the period is recorded
// so teardown knows how far to advance the fake clock.
func NewTicker(d time.Duration) *time.Ticker {
	for {
		old := maxTick.Load()
		if int64(d) <= old || maxTick.CompareAndSwap(old, int64(d)) {
			break
		}
	}
	return time.NewTicker(d)
}
