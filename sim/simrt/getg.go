package simrt

// getg returns an identity for the calling goroutine (see getg_amd64.s).
func getg() uintptr
