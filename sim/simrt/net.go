package simrt

import (
	"context"
	"net"
	"net/http"
	"sync/atomic"
	"time"
)

// RoundTripFunc is the micro-sim stand-in for a backend connection.
type RoundTripFunc func(real *http.Transport, r *http.Request) (*http.Response, error)

// DialFunc is the system-sim stand-in for the TCP stack.
type DialFunc func(ctx context.Context, network, addr string, timeout time.Duration) (net.Conn, error)

var (
	rtHook         atomic.Pointer[RoundTripFunc]
	dialHook       atomic.Pointer[DialFunc]
	probeTransport atomic.Pointer[http.Transport]
)

// SetRoundTripHook makes every wrapped transport/client use f (micro-sim).
func SetRoundTripHook(f RoundTripFunc) { rtHook.Store(&f) }

// SetDialHook makes every simrt.Dialer dial through f (system-sim).
func SetDialHook(f DialFunc) { dialHook.Store(&f) }

// SetProbeTransport provides the transport used by wrapped http.Clients whose
// Transport is nil (Helios' health prober uses http.DefaultTransport).
func SetProbeTransport(t *http.Transport) { probeTransport.Store(t) }

// Dialer replaces net.Dialer (same exported fields that Helios may set).
type Dialer struct {
	Timeout       time.Duration
	Deadline      time.Time
	LocalAddr     net.Addr
	DualStack     bool
	FallbackDelay time.Duration
	KeepAlive     time.Duration
	Resolver      *net.Resolver
}

func (d *Dialer) DialContext(ctx context.Context, network, addr string) (net.Conn, error) {
	if h := dialHook.Load(); h != nil {
		return (*h)(ctx, network, addr, d.Timeout)
	}
	nd := &net.Dialer{Timeout: d.Timeout, Deadline: d.Deadline, LocalAddr: d.LocalAddr, FallbackDelay: d.FallbackDelay, KeepAlive: d.KeepAlive, Resolver: d.Resolver}
	return nd.DialContext(ctx, network, addr)
}

func (d *Dialer) Dial(network, addr string) (net.Conn, error) {
	return d.DialContext(context.Background(), network, addr)
}

type wrapRT struct{ t *http.Transport }

func (w *wrapRT) RoundTrip(r *http.Request) (*http.Response, error) {
	if h := rtHook.Load(); h != nil {
		return (*h)(w.t, r)
	}
	return w.t.RoundTrip(r)
}

func (w *wrapRT) CloseIdleConnections() { w.t.CloseIdleConnections() }

// Unwrap gives harness code access to the real transport Helios configured.
func (w *wrapRT) Unwrap() *http.Transport { return w.t }

// WrapTransport wraps an `&http.Transport{...}` literal of instrumented code.
func WrapTransport(t *http.Transport) http.RoundTripper { return &wrapRT{t: t} }

type clientRT struct{}

func (clientRT) RoundTrip(r *http.Request) (*http.Response, error) {
	if h := rtHook.Load(); h != nil {
		return (*h)(nil, r)
	}
	if t := probeTransport.Load(); t != nil {
		return t.RoundTrip(r)
	}
	return http.DefaultTransport.RoundTrip(r)
}

// WrapClient wraps an `&http.Client{...}` literal of instrumented code.
func WrapClient(c *http.Client) *http.Client {
	if c.Transport == nil {
		c.Transport = clientRT{}
	}
	return c
}
