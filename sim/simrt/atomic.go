package simrt

import (
	"sync/atomic"
	"unsafe"
)

// Replacements for the sync/atomic functions. In micro mode each is preceded
// by a scheduling point; the operation itself is the real atomic.

func atomicYield(kind string, addr unsafe.Pointer) {
	t := taskFor()
	if t == nil {
		return
	}
	t.yield(kind, uint64(uintptr(addr))&0xffff, sitePC(4))
}

func AddInt32(addr *int32, delta int32) int32 {
	atomicYield("atomic.Add", unsafe.Pointer(addr))
	return atomic.AddInt32(addr, delta)
}
func AddInt64(addr *int64, delta int64) int64 {
	atomicYield("atomic.Add", unsafe.Pointer(addr))
	return atomic.AddInt64(addr, delta)
}
func AddUint32(addr *uint32, delta uint32) uint32 {
	atomicYield("atomic.Add", unsafe.Pointer(addr))
	return atomic.AddUint32(addr, delta)
}
func AddUint64(addr *uint64, delta uint64) uint64 {
	atomicYield("atomic.Add", unsafe.Pointer(addr))
	return atomic.AddUint64(addr, delta)
}
func LoadInt32(addr *int32) int32 {
	atomicYield("atomic.Load", unsafe.Pointer(addr))
	return atomic.LoadInt32(addr)
}
func LoadInt64(addr *int64) int64 {
	atomicYield("atomic.Load", unsafe.Pointer(addr))
	return atomic.LoadInt64(addr)
}
func LoadUint32(addr *uint32) uint32 {
	atomicYield("atomic.Load", unsafe.Pointer(addr))
	return atomic.LoadUint32(addr)
}
func LoadUint64(addr *uint64) uint64 {
	atomicYield("atomic.Load", unsafe.Pointer(addr))
	return atomic.LoadUint64(addr)
}
func StoreInt32(addr *int32, v int32) {
	atomicYield("atomic.Store", unsafe.Pointer(addr))
	atomic.StoreInt32(addr, v)
}
func StoreInt64(addr *int64, v int64) {
	atomicYield("atomic.Store", unsafe.Pointer(addr))
	atomic.StoreInt64(addr, v)
}
func StoreUint32(addr *uint32, v uint32) {
	atomicYield("atomic.Store", unsafe.Pointer(addr))
	atomic.StoreUint32(addr, v)
}
func StoreUint64(addr *uint64, v uint64) {
	atomicYield("atomic.Store", unsafe.Pointer(addr))
	atomic.StoreUint64(addr, v)
}
func SwapInt32(addr *int32, v int32) int32 {
	atomicYield("atomic.Swap", unsafe.Pointer(addr))
	return atomic.SwapInt32(addr, v)
}
func SwapInt64(addr *int64, v int64) int64 {
	atomicYield("atomic.Swap", unsafe.Pointer(addr))
	return atomic.SwapInt64(addr, v)
}
func SwapUint32(addr *uint32, v uint32) uint32 {
	atomicYield("atomic.Swap", unsafe.Pointer(addr))
	return atomic.SwapUint32(addr, v)
}
func SwapUint64(addr *uint64, v uint64) uint64 {
	atomicYield("atomic.Swap", unsafe.Pointer(addr))
	return atomic.SwapUint64(addr, v)
}
func CompareAndSwapInt32(addr *int32, old, new int32) bool {
	atomicYield("atomic.CAS", unsafe.Pointer(addr))
	return atomic.CompareAndSwapInt32(addr, old, new)
}
func CompareAndSwapInt64(addr *int64, old, new int64) bool {
	atomicYield("atomic.CAS", unsafe.Pointer(addr))
	return atomic.CompareAndSwapInt64(addr, old, new)
}
func CompareAndSwapUint32(addr *uint32, old, new uint32) bool {
	atomicYield("atomic.CAS", unsafe.Pointer(addr))
	return atomic.CompareAndSwapUint32(addr, old, new)
}
func CompareAndSwapUint64(addr *uint64, old, new uint64) bool {
	atomicYield("atomic.CAS", unsafe.Pointer(addr))
	return atomic.CompareAndSwapUint64(addr, old, new)
}
