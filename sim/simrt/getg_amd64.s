#include "textflag.h"

// func getg() uintptr
// Returns the address of the running goroutine's g structure. It is used
// only as an identity key (goroutine -> simulator task); nothing is read
// through it.
TEXT ·getg(SB),NOSPLIT,$0-8
	MOVQ (TLS), AX
	MOVQ AX, ret+0(FP)
	RET
