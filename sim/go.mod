module vsim

go 1.26
