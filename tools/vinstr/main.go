// vinstr instruments the Helios sources for the simulator.
//
// It never writes under the repository. For every non-test .go file under
// <repo>/internal and <repo>/cmd/helios it computes *textual* edits from the
// AST (so every original line keeps its line number) and writes the edited copy
// under <out>/src/...; it then writes <out>/overlay.json which maps
//   - each edited file onto its copy,
//   - <repo>/cmd/helios/<name>_test.go onto <sim>/harness/<name>_test.go.
//
// Substitutions (purely syntactic, on package-qualified identifiers):
//
//	sync.Mutex / RWMutex / WaitGroup / Map -> simrt.<same>
//	atomic.<Func>                           -> simrt.<Func>
//	go f(args)                              -> { a := args; simrt.Go(site, func(){ f(a) }) }
//	time.NewTicker                          -> simrt.NewTicker
//	net.Dialer                              -> simrt.Dialer
//	&http.Transport{...}                    -> simrt.WrapTransport(&http.Transport{...})
//	&http.Client{...}                       -> simrt.WrapClient(&http.Client{...})
//	for k, v := range <map> {               -> for _, k := range simrt.SortedKeys(<map>) { v, ok := <map>[k]; if !ok { continue }; ...
//	   (map iteration order is the one source of randomness inside Helios itself; maps are found with go/types)
//
// Exit status: 0 ok, 2 on any trouble (parse error, expected seam not found).
package main

import (
	"crypto/sha256"
	"encoding/hex"
	"encoding/json"
	"flag"
	"fmt"
	"go/ast"
	"go/importer"
	"go/parser"
	"go/token"
	"go/types"
	"os"
	"path/filepath"
	"sort"
	"strings"
)

// mapRanges: "rel:offset-of-for-keyword" of every range statement over a map.
var mapRanges = map[string]bool{}

// findMapRanges type-checks every package (non-test files) with the source importer and
// records the range statements whose operand is a map. The result is cached by content hash
// (type-checking net/http from source costs a few seconds).
func findMapRanges(absRepo string, files []string, cacheDir string) []string {
	h := sha256.New()
	h.Write([]byte("vinstr-maprange-v1\n"))
	for _, rel := range files {
		data, _ := os.ReadFile(filepath.Join(absRepo, rel))
		h.Write([]byte(rel + "\n"))
		h.Write(data)
	}
	key := hex.EncodeToString(h.Sum(nil))[:24]
	cacheFile := filepath.Join(cacheDir, "maprange-"+key+".json")
	if cacheDir != "" {
		if data, err := os.ReadFile(cacheFile); err == nil {
			var c struct {
				Ranges   []string
				Warnings []string
			}
			if json.Unmarshal(data, &c) == nil {
				for _, r := range c.Ranges {
					mapRanges[r] = true
				}
				return c.Warnings
			}
		}
	}
	var warnings []string
	byDir := map[string][]string{}
	for _, rel := range files {
		byDir[filepath.Dir(rel)] = append(byDir[filepath.Dir(rel)], rel)
	}
	var dirs []string
	for d := range byDir {
		dirs = append(dirs, d)
	}
	sort.Strings(dirs)
	fset := token.NewFileSet()
	// the source importer resolves import paths relative to the working directory
	wd, _ := os.Getwd()
	os.Chdir(absRepo)
	defer os.Chdir(wd)
	imp := importer.ForCompiler(fset, "source", nil)
	for _, d := range dirs {
		var afs []*ast.File
		for _, rel := range byDir[d] {
			f, err := parser.ParseFile(fset, filepath.Join(absRepo, rel), nil, 0)
			if err != nil {
				fail("%s: %v", rel, err)
			}
			afs = append(afs, f)
		}
		info := &types.Info{Types: map[ast.Expr]types.TypeAndValue{}}
		nerr := 0
		conf := types.Config{Importer: imp, Error: func(err error) { nerr++ }}
		conf.Check(d, fset, afs, info)
		if nerr > 0 {
			warnings = append(warnings, fmt.Sprintf("%s: %d type errors while looking for map iterations; map ranges there may be missed", d, nerr))
		}
		for _, f := range afs {
			ast.Inspect(f, func(n ast.Node) bool {
				if r, ok := n.(*ast.RangeStmt); ok {
					if tv, ok := info.Types[r.X]; ok && tv.Type != nil {
						if _, isMap := tv.Type.Underlying().(*types.Map); isMap {
							pos := fset.Position(r.Pos())
							rel, _ := filepath.Rel(absRepo, pos.Filename)
							mapRanges[fmt.Sprintf("%s:%d", rel, pos.Offset)] = true
						}
					}
				}
				return true
			})
		}
	}
	if cacheDir != "" {
		var rs []string
		for r := range mapRanges {
			rs = append(rs, r)
		}
		sort.Strings(rs)
		data, _ := json.Marshal(map[string]any{"Ranges": rs, "Warnings": warnings})
		os.MkdirAll(cacheDir, 0o755)
		os.WriteFile(cacheFile, data, 0o644)
	}
	return warnings
}

// Files whose locks are deliberately NOT instrumented (leaf lock taken on
// every log call; no property anchors there).
var excludeSync = map[string]bool{
	"internal/logging/logger.go": true,
}

// Packages not instrumented at all.
var skipDirs = map[string]bool{
	"internal/vsim": true,
}

const simrtPath = "vsim/simrt"

var syncTypes = map[string]bool{"Mutex": true, "RWMutex": true, "WaitGroup": true, "Map": true}
var atomicFuncs = map[string]bool{}

func init() {
	for _, op := range []string{"Add", "Load", "Store", "Swap", "CompareAndSwap"} {
		for _, ty := range []string{"Int32", "Int64", "Uint32", "Uint64"} {
			atomicFuncs[op+ty] = true
		}
	}
}

type edit struct {
	start, end int // byte offsets; start==end is an insertion
	text       string
	prio       int // order among insertions at the same offset
}

type fileResult struct {
	rel      string
	edits    []edit
	counts   map[string]int
	warnings []string
}

func fail(format string, a ...any) {
	fmt.Fprintf(os.Stderr, "vinstr: "+format+"\n", a...)
	os.Exit(2)
}

func main() {
	repo := flag.String("repo", "/repo", "repository root")
	out := flag.String("out", "", "output directory")
	sim := flag.String("sim", "/verif/sim", "simulator source root")
	quiet := flag.Bool("q", false, "quiet")
	cache := flag.String("cache", "", "directory for the map-range cache (optional)")
	flag.Parse()
	if *out == "" {
		fail("-out required")
	}
	absRepo, _ := filepath.Abs(*repo)
	absOut, _ := filepath.Abs(*out)
	absSim, _ := filepath.Abs(*sim)

	overlay := map[string]string{}
	total := map[string]int{}
	var warnings []string

	var files []string
	for _, root := range []string{"internal", "cmd/helios"} {
		base := filepath.Join(absRepo, root)
		err := filepath.Walk(base, func(p string, info os.FileInfo, err error) error {
			if err != nil {
				return err
			}
			rel, _ := filepath.Rel(absRepo, p)
			if info.IsDir() {
				if skipDirs[rel] {
					return filepath.SkipDir
				}
				return nil
			}
			if strings.HasSuffix(p, ".go") && !strings.HasSuffix(p, "_test.go") {
				files = append(files, rel)
			}
			return nil
		})
		if err != nil {
			fail("walk %s: %v", base, err)
		}
	}
	sort.Strings(files)
	warnings = append(warnings, findMapRanges(absRepo, files, *cache)...)

	for _, rel := range files {
		src, err := os.ReadFile(filepath.Join(absRepo, rel))
		if err != nil {
			fail("read %s: %v", rel, err)
		}
		res, err := instrument(rel, src)
		if err != nil {
			fail("%s: %v", rel, err)
		}
		warnings = append(warnings, res.warnings...)
		for k, v := range res.counts {
			total[k] += v
		}
		if len(res.edits) == 0 {
			continue
		}
		dst := filepath.Join(absOut, "src", rel)
		if err := os.MkdirAll(filepath.Dir(dst), 0o755); err != nil {
			fail("mkdir: %v", err)
		}
		if err := os.WriteFile(dst, apply(src, res.edits), 0o644); err != nil {
			fail("write: %v", err)
		}
		overlay[filepath.Join(absRepo, rel)] = dst
	}

	// harness test files are overlaid into cmd/helios (package main), so they can
	// call buildHandler / createHTTPServer / shutdownGracefully. The simulator
	// packages themselves live in their own module (vsim => <sim>, via a replace
	// directive in the check's -modfile), so nothing else needs to be added.
	hdir := filepath.Join(absSim, "harness")
	fs, err := os.ReadDir(hdir)
	if err != nil {
		fail("read harness dir: %v", err)
	}
	for _, f := range fs {
		if f.IsDir() || !strings.HasSuffix(f.Name(), "_test.go") {
			continue
		}
		overlay[filepath.Join(absRepo, "cmd/helios", f.Name())] = filepath.Join(hdir, f.Name())
	}

	// sanity: the seams the simulator depends on must have been found
	need := map[string]int{"sync": 5, "go": 3, "ticker": 2, "transport": 1}
	for k, n := range need {
		if total[k] < n {
			fail("expected at least %d %q seams, found %d — the tree no longer has the seams the simulator relies on", n, k, total[k])
		}
	}

	data, _ := json.MarshalIndent(map[string]any{"Replace": overlay}, "", " ")
	if err := os.MkdirAll(absOut, 0o755); err != nil {
		fail("mkdir: %v", err)
	}
	if err := os.WriteFile(filepath.Join(absOut, "overlay.json"), data, 0o644); err != nil {
		fail("write overlay: %v", err)
	}
	rep, _ := json.MarshalIndent(map[string]any{"seams": total, "warnings": warnings, "files": len(files)}, "", " ")
	_ = os.WriteFile(filepath.Join(absOut, "vinstr-report.json"), rep, 0o644)
	if !*quiet {
		fmt.Fprintf(os.Stderr, "vinstr: %d files, seams %v, %d warnings\n", len(files), total, len(warnings))
		for _, w := range warnings {
			fmt.Fprintln(os.Stderr, "vinstr: warning:", w)
		}
	}
}

func apply(src []byte, edits []edit) []byte {
	sort.SliceStable(edits, func(i, j int) bool {
		if edits[i].start != edits[j].start {
			return edits[i].start < edits[j].start
		}
		// insertions before replacements at the same offset, then by prio
		ii, jj := edits[i].end == edits[i].start, edits[j].end == edits[j].start
		if ii != jj {
			return ii
		}
		return edits[i].prio < edits[j].prio
	})
	var b []byte
	pos := 0
	for _, e := range edits {
		if e.start < pos {
			fail("overlapping edits at offset %d", e.start)
		}
		b = append(b, src[pos:e.start]...)
		b = append(b, e.text...)
		pos = e.end
	}
	b = append(b, src[pos:]...)
	return b
}

func importName(f *ast.File, path string) string {
	for _, im := range f.Imports {
		if strings.Trim(im.Path.Value, `"`) == path {
			if im.Name != nil {
				return im.Name.Name
			}
			return path[strings.LastIndex(path, "/")+1:]
		}
	}
	return ""
}

func instrument(rel string, src []byte) (*fileResult, error) {
	fset := token.NewFileSet()
	f, err := parser.ParseFile(fset, rel, src, parser.ParseComments)
	if err != nil {
		return nil, err
	}
	res := &fileResult{rel: rel, counts: map[string]int{}}
	off := func(p token.Pos) int { return fset.Position(p).Offset }
	text := func(n ast.Node) string { return string(src[off(n.Pos()):off(n.End())]) }

	syncN := importName(f, "sync")
	atomicN := importName(f, "sync/atomic")
	timeN := importName(f, "time")
	netN := importName(f, "net")
	httpN := importName(f, "net/http")
	for _, n := range []string{syncN, atomicN, timeN, netN, httpN} {
		if n == "_" || n == "." {
			res.warnings = append(res.warnings, rel+": dot/blank import of a seam package; seams in this file may be lost")
		}
	}
	doSync := !excludeSync[rel]

	isPkg := func(e ast.Expr, name string) bool {
		id, ok := e.(*ast.Ident)
		return ok && name != "" && id.Name == name && id.Obj == nil
	}
	replaceIdent := func(id ast.Expr) {
		res.edits = append(res.edits, edit{start: off(id.Pos()), end: off(id.End()), text: "simrt"})
	}
	isCompositePtr := func(e ast.Expr, pkg, typ string) bool {
		u, ok := e.(*ast.UnaryExpr)
		if !ok || u.Op != token.AND {
			return false
		}
		cl, ok := u.X.(*ast.CompositeLit)
		if !ok {
			return false
		}
		sel, ok := cl.Type.(*ast.SelectorExpr)
		return ok && isPkg(sel.X, pkg) && sel.Sel.Name == typ
	}

	goCounter := 0
	rangeCounter := 0
	ast.Inspect(f, func(n ast.Node) bool {
		switch x := n.(type) {
		case *ast.SelectorExpr:
			switch {
			case doSync && isPkg(x.X, syncN) && syncTypes[x.Sel.Name]:
				replaceIdent(x.X)
				res.counts["sync"]++
			case doSync && isPkg(x.X, atomicN) && atomicFuncs[x.Sel.Name]:
				replaceIdent(x.X)
				res.counts["atomic"]++
			case doSync && isPkg(x.X, atomicN):
				res.warnings = append(res.warnings, fmt.Sprintf("%s:%d: atomic.%s is not a substituted seam (no yield point there)", rel, fset.Position(x.Pos()).Line, x.Sel.Name))
			case isPkg(x.X, timeN) && x.Sel.Name == "NewTicker":
				replaceIdent(x.X)
				res.counts["ticker"]++
			case isPkg(x.X, netN) && x.Sel.Name == "Dialer":
				replaceIdent(x.X)
				res.counts["dialer"]++
			}
		case *ast.UnaryExpr:
			if isCompositePtr(x, httpN, "Transport") {
				res.edits = append(res.edits,
					edit{start: off(x.Pos()), end: off(x.Pos()), text: "simrt.WrapTransport(", prio: 5},
					edit{start: off(x.End()), end: off(x.End()), text: ")", prio: -5})
				res.counts["transport"]++
			} else if isCompositePtr(x, httpN, "Client") {
				res.edits = append(res.edits,
					edit{start: off(x.Pos()), end: off(x.Pos()), text: "simrt.WrapClient(", prio: 5},
					edit{start: off(x.End()), end: off(x.End()), text: ")", prio: -5})
				res.counts["client"]++
			}
		case *ast.RangeStmt:
			if !mapRanges[fmt.Sprintf("%s:%d", rel, off(x.Pos()))] {
				break
			}
			line := fset.Position(x.Pos()).Line
			xt := text(x.X)
			_, isCall := x.X.(*ast.CallExpr)
			if isCall || strings.Contains(xt, "\n") || fset.Position(x.Body.Lbrace).Line != line || (x.Tok != token.DEFINE && x.Key != nil) {
				res.warnings = append(res.warnings, fmt.Sprintf("%s:%d: map iteration left in Go's random order (operand is a call / multi-line header / assignment form)", rel, line))
				break
			}
			rangeCounter++
			keyName := fmt.Sprintf("vsimK%d", rangeCounter)
			if id, ok := x.Key.(*ast.Ident); ok && id.Name != "_" {
				keyName = id.Name
			}
			hdr := fmt.Sprintf("_, %s := range simrt.SortedKeys(%s) {", keyName, xt)
			if id, ok := x.Value.(*ast.Ident); ok && id.Name != "_" {
				hdr += fmt.Sprintf(" %s, vsimOk%d := (%s)[%s]; if !vsimOk%d { continue };", id.Name, rangeCounter, xt, keyName, rangeCounter)
			} else {
				hdr += fmt.Sprintf(" if _, vsimOk%d := (%s)[%s]; !vsimOk%d { continue };", rangeCounter, xt, keyName, rangeCounter)
			}
			if x.Key == nil {
				hdr += " _ = " + keyName + ";"
			}
			// replace everything between "for " and the opening brace (inclusive)
			res.edits = append(res.edits, edit{start: off(x.Pos()) + len("for "), end: off(x.Body.Lbrace) + 1, text: hdr})
			res.counts["maprange"]++
			return true
		case *ast.GoStmt:
			goCounter++
			pos := fset.Position(x.Pos())
			site := fmt.Sprintf("%s:%d", rel, pos.Line)
			call := x.Call
			var pre strings.Builder
			pre.WriteString("{ ")
			pfx := fmt.Sprintf("vsimG%d", goCounter)
			// function value
			if _, isLit := call.Fun.(*ast.FuncLit); !isLit {
				ft := text(call.Fun)
				if strings.Contains(ft, "\n") {
					res.warnings = append(res.warnings, site+": multi-line go target left in place")
				} else {
					fmt.Fprintf(&pre, "%sF := %s; ", pfx, ft)
					res.edits = append(res.edits, edit{start: off(call.Fun.Pos()), end: off(call.Fun.End()), text: pfx + "F"})
				}
			}
			for i, a := range call.Args {
				if simpleConst(a) {
					continue
				}
				at := text(a)
				if strings.Contains(at, "\n") {
					res.warnings = append(res.warnings, site+": multi-line go argument evaluated inside the spawned task")
					continue
				}
				name := fmt.Sprintf("%sA%d", pfx, i)
				fmt.Fprintf(&pre, "%s := %s; ", name, at)
				res.edits = append(res.edits, edit{start: off(a.Pos()), end: off(a.End()), text: name})
			}
			fmt.Fprintf(&pre, "simrt.Go(%q, func() { ", site)
			// replace the "go" keyword (and following whitespace) with the prefix
			res.edits = append(res.edits,
				edit{start: off(x.Pos()), end: off(call.Pos()), text: pre.String()},
				edit{start: off(x.End()), end: off(x.End()), text: " }) }", prio: -9})
			res.counts["go"]++
		}
		return true
	})

	if len(res.edits) == 0 {
		return res, nil
	}
	// import simrt on the package clause line; keep possibly-unused imports alive
	res.edits = append(res.edits, edit{start: off(f.Name.End()), end: off(f.Name.End()), text: "; import simrt \"" + simrtPath + "\""})
	var keep strings.Builder
	keep.WriteString("\n// --- vinstr: keep imports referenced ---\n")
	if syncN != "" {
		fmt.Fprintf(&keep, "var _ %s.Locker\n", syncN)
	}
	if atomicN != "" {
		fmt.Fprintf(&keep, "var _ = %s.AddInt32\n", atomicN)
	}
	if netN != "" {
		fmt.Fprintf(&keep, "var _ %s.Conn\n", netN)
	}
	if timeN != "" {
		fmt.Fprintf(&keep, "var _ = %s.Now\n", timeN)
	}
	keep.WriteString("var _ = simrt.ResetRun\n")
	res.edits = append(res.edits, edit{start: len(src), end: len(src), text: keep.String()})
	return res, nil
}

func simpleConst(e ast.Expr) bool {
	switch x := e.(type) {
	case *ast.BasicLit:
		return true
	case *ast.Ident:
		return x.Name == "nil" || x.Name == "true" || x.Name == "false"
	}
	return false
}
