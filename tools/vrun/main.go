// vrun orchestrates a check: instrument /repo into an overlay, build the
// simulation test binary, fan runs out over worker processes, merge results,
// replay every distinct violation in a fresh process, match known findings,
// write the evidence file and set the exit status.
//
// Exit status: 0 property held on everything explored (KNOWN-FINDING lines
// may be printed), 1 VIOLATION, 2 harness/build trouble (never an alarm).
package main

import (
	"regexp"
	"bufio"
	"bytes"
	"encoding/binary"
	"encoding/json"
	"fmt"
	"os"
	"os/exec"
	"path/filepath"
	"sort"
	"strconv"
	"strings"
	"sync"
	"time"
)

const goBin = "go1.26.8"

// repoRoot is /repo; VERIF_REPO overrides it for background sweeps on a snapshot
// (registered commands never set it).
var repoRoot = func() string {
	if v := os.Getenv("VERIF_REPO"); v != "" {
		return v
	}
	return "/repo"
}()

// verifRoot is the directory that holds bin/, sim/, evidence/ ... — derived
// from the executable's location so that a snapshot of /verif is self-contained.
var verifRoot = func() string {
	if v := os.Getenv("VERIF_ROOT"); v != "" {
		return v
	}
	exe, err := os.Executable()
	if err != nil {
		return "/verif"
	}
	exe, _ = filepath.EvalSymlinks(exe)
	return filepath.Dir(filepath.Dir(exe))
}()

func trouble(format string, a ...any) {
	fmt.Fprintf(os.Stderr, "vrun: TROUBLE: "+format+"\n", a...)
	os.Exit(2)
}

func goEnv() []string {
	env := os.Environ()
	env = append(env, "GOFLAGS=-mod=mod", "GOPROXY=off", "GOSUMDB=off", "GOTOOLCHAIN=local", "CGO_ENABLED=1")
	return env
}

// ---------------------------------------------------------------------------
// build

type buildOut struct {
	dir    string
	bin    string
	vinstr map[string]any
}

func build(tag string, race bool) *buildOut {
	dir := filepath.Join(verifRoot, "build", fmt.Sprintf("%s-%d", tag, os.Getpid()))
	os.RemoveAll(dir)
	if err := os.MkdirAll(dir, 0o755); err != nil {
		trouble("mkdir %s: %v", dir, err)
	}
	vin := filepath.Join(verifRoot, "bin", "vinstr")
	cmd := exec.Command(vin, "-repo", repoRoot, "-out", dir, "-sim", filepath.Join(verifRoot, "sim"), "-cache", filepath.Join(verifRoot, "build", "cache"), "-q")
	cmd.Env = goEnv()
	cmd.Stderr = os.Stderr
	if err := cmd.Run(); err != nil {
		trouble("vinstr failed: %v", err)
	}
	// modfile = repo go.mod + porcupine
	gomod, err := os.ReadFile(filepath.Join(repoRoot, "go.mod"))
	if err != nil {
		trouble("read go.mod: %v", err)
	}
	gomod = append(gomod, []byte("\nrequire github.com/anishathalye/porcupine v1.3.0\nrequire vsim v0.0.0\nreplace vsim => "+filepath.Join(verifRoot, "sim")+"\n")...)
	if err := os.WriteFile(filepath.Join(dir, "go.mod"), gomod, 0o644); err != nil {
		trouble("write go.mod: %v", err)
	}
	gosum, _ := os.ReadFile(filepath.Join(repoRoot, "go.sum"))
	extra, _ := os.ReadFile(filepath.Join(verifRoot, "sim", "extra.sum"))
	gosum = append(gosum, extra...)
	if err := os.WriteFile(filepath.Join(dir, "go.sum"), gosum, 0o644); err != nil {
		trouble("write go.sum: %v", err)
	}
	bin := filepath.Join(dir, "sim.test")
	args := []string{"test", "-c", "-vet=off", "-overlay=" + filepath.Join(dir, "overlay.json"), "-modfile=" + filepath.Join(dir, "go.mod"), "-o", bin}
	if race {
		args = append(args, "-race")
	}
	args = append(args, "./cmd/helios")
	c := exec.Command(goBin, args...)
	c.Dir = repoRoot
	c.Env = goEnv()
	var out bytes.Buffer
	c.Stdout, c.Stderr = &out, &out
	if err := c.Run(); err != nil {
		trouble("build of the simulation binary failed (the tree does not compile under instrumentation):\n%s", out.String())
	}
	b := &buildOut{dir: dir, bin: bin}
	if data, err := os.ReadFile(filepath.Join(dir, "vinstr-report.json")); err == nil {
		json.Unmarshal(data, &b.vinstr)
	}
	return b
}

// ---------------------------------------------------------------------------
// worker protocol (mirrors the harness types)

type ScenarioRange struct {
	Name string `json:"name"`
	From uint64 `json:"from"`
	To   uint64 `json:"to"`
}

type Job struct {
	Mode       string          `json:"mode"`
	Property   string          `json:"property"`
	Tier       string          `json:"tier"`
	Seed       uint64          `json:"seed"`
	Scenarios  []ScenarioRange `json:"scenarios"`
	Out        string          `json:"out"`
	HashOut    string          `json:"hash_out"`
	ReplayDir  string          `json:"replay_dir"`
	ReplayFile string          `json:"replay_file"`
	WallS      float64         `json:"wall_s"`
	MaxSamples int             `json:"max_samples"`
	Worker     int             `json:"worker"`
	Repeat     int             `json:"repeat"`
}

type FoundViolation struct {
	Property    string `json:"property"`
	Fingerprint string `json:"fingerprint"`
	Message     string `json:"message"`
	Scenario    string `json:"scenario"`
	Index       uint64 `json:"index"`
	RunSeed     uint64 `json:"run_seed"`
	ReplayPath  string `json:"replay_path"`
	Choices     int    `json:"choices"`
	OrigLen     int    `json:"orig_choices"`
	MinRuns     int    `json:"minimise_runs"`
	Count       int    `json:"count"`
	Trace       map[string][]uint32 `json:"trace,omitempty"`
}

type Result struct {
	Worker        int               `json:"worker"`
	Runs          uint64            `json:"runs"`
	RunsByScen    map[string]uint64 `json:"runs_by_scenario"`
	Completed     bool              `json:"completed"`
	SimTimeS      float64           `json:"sim_time_s"`
	WallS         float64           `json:"wall_s"`
	Faults        map[string]int    `json:"faults"`
	Probes        map[string]int    `json:"probes"`
	Decisions     uint64            `json:"decisions"`
	Steps         uint64            `json:"steps"`
	Draws         uint64            `json:"draws"`
	Events        uint64            `json:"events"`
	NontrivialRun uint64            `json:"nontrivial_runs"`
	Sites         map[string]int    `json:"sites"`
	Abandoned     int               `json:"abandoned"`
	Stuck         int               `json:"stuck"`
	StuckRuns     []string          `json:"stuck_runs,omitempty"`
	Adopted       int               `json:"adopted"`
	HarnessErrs   []string          `json:"harness_errors"`
	Violations    []*FoundViolation `json:"violations"`
	Samples       []map[string]any  `json:"samples"`
	LogHashes     map[string]string `json:"log_hashes,omitempty"`
}

func runWorker(bin string, job *Job, gomaxprocs int, extraEnv ...string) (*Result, error) {
	jobPath := job.Out + ".job"
	data, _ := json.Marshal(job)
	if err := os.WriteFile(jobPath, data, 0o644); err != nil {
		return nil, err
	}
	cmd := exec.Command(bin, "-test.run", "^TestSim$", "-test.timeout", "0", "-test.count", "1")
	cmd.Env = append(os.Environ(), "VSIM_JOB="+jobPath, "GOMAXPROCS="+strconv.Itoa(gomaxprocs), "GOTRACEBACK=all")
	cmd.Env = append(cmd.Env, extraEnv...)
	var out bytes.Buffer
	cmd.Stdout, cmd.Stderr = &out, &out
	err := cmd.Run()
	logPath := job.Out + ".log"
	os.WriteFile(logPath, out.Bytes(), 0o644)
	if err != nil && strings.Contains(out.String(), "race detected during execution of test") {
		// the testing package fails a test when the race detector has reported anything;
		// the worker has still done its job and written its result (race tier only)
		if _, serr := os.Stat(job.Out); serr == nil {
			err = nil
		}
	}
	if err != nil {
		// show where it began (a Go panic / fatal error prints its reason first, then
		// every goroutine) and how it ended
		full := out.String()
		head := ""
		for _, mark := range []string{"\npanic: ", "\nfatal error: ", "panic: ", "fatal error: "} {
			if i := strings.Index(full, mark); i >= 0 {
				head = full[i:]
				if len(head) > 4000 {
					head = head[:4000]
				}
				break
			}
		}
		tail := full
		if len(tail) > 3000 {
			tail = tail[len(tail)-3000:]
		}
		return nil, fmt.Errorf("worker %d failed: %v (full output: %s)\n%s\n[...]\n%s", job.Worker, err, logPath, head, tail)
	}
	if job.Mode == "replay" || job.Mode == "minimise" {
		return nil, nil
	}
	rd, err := os.ReadFile(job.Out)
	if err != nil {
		return nil, fmt.Errorf("worker %d wrote no result: %v\n%s", job.Worker, err, out.String())
	}
	var res Result
	if err := json.Unmarshal(rd, &res); err != nil {
		return nil, err
	}
	return &res, nil
}

var crashHeliosFrame = regexp.MustCompile(`(?m)^\s+\S*?/((?:internal|cmd/helios)/[^\s:]+\.go):(\d+)`)

// crashReport recognises a worker that was ended by a Go runtime fatal error raised in Helios
// code and writes a report file for it; it returns the VIOLATION line ("" if this is something
// else, i.e. harness trouble).
func crashReport(prop, tier string, w int, job *Job, replayDir string) string {
	data, err := os.ReadFile(job.Out + ".log")
	if err != nil {
		return ""
	}
	out := string(data)
	i := strings.Index(out, "fatal error: concurrent map")
	if i < 0 {
		return ""
	}
	head := out[i:]
	msg := head
	if j := strings.Index(msg, "\n"); j > 0 {
		msg = msg[:j]
	}
	// the goroutine that was running: its first non-test Helios frame
	stack := head
	if j := strings.Index(stack, "\n\ngoroutine "); j > 0 { // (the running goroutine's own header)
		if k := strings.Index(stack[j+2:], "\n\ngoroutine "); k > 0 {
			stack = stack[:j+2+k]
		}
	}
	site := ""
	for _, m := range crashHeliosFrame.FindAllStringSubmatch(stack, -1) {
		if !strings.HasSuffix(m[1], "_test.go") {
			site = m[1] + ":" + m[2]
			break
		}
	}
	if site == "" {
		return ""
	}
	os.MkdirAll(replayDir, 0o755)
	fp := prop + "/process-crash{" + strings.TrimPrefix(msg, "fatal error: ") + "@" + site + "}"
	path := filepath.Join(replayDir, sanitize(prop+"-"+fp)+fmt.Sprintf("-crash-w%d.json", w))
	if len(head) > 20000 {
		head = head[:20000]
	}
	rep := map[string]any{"property": prop, "fingerprint": fp, "kind": "process-crash", "tier": tier, "base_seed": job.Seed, "scenarios": job.Scenarios,
		"message": "a Go runtime fatal error in Helios code ended the worker process (it would end the real process as well): " + msg + " at " + site,
		"note":    "the goroutine schedule that led here is the Go runtime's, not seed-decided: re-running the same check usually reproduces it, a replay of this file does not apply", "output": head}
	b, _ := json.MarshalIndent(rep, "", " ")
	if os.WriteFile(path, b, 0o644) != nil {
		return ""
	}
	return fmt.Sprintf("VIOLATION property=%s replay=%s\n  fingerprint=%s", prop, path, fp)
}

// ---------------------------------------------------------------------------
// known findings

type KnownFinding struct {
	Property    string `json:"property"`
	Fingerprint string `json:"fingerprint"`
	What        string `json:"what"`
	Status      string `json:"status"` // "open" or "fixed: <commit>"
}

func loadKnown() []KnownFinding {
	data, err := os.ReadFile(filepath.Join(verifRoot, "known_findings.json"))
	if err != nil {
		return nil
	}
	var f struct {
		Findings []KnownFinding `json:"findings"`
	}
	if err := json.Unmarshal(data, &f); err != nil {
		trouble("known_findings.json does not parse: %v", err)
	}
	return f.Findings
}

// ---------------------------------------------------------------------------
// check

type merged struct {
	runs, decisions, steps, draws, events, nontrivial uint64
	simS                                              float64
	faults, probes, sites                             map[string]int
	runsByScen                                        map[string]uint64
	abandoned, adopted, stuck                         int
	stuckRuns                                         []string
	harnessErrs                                       []string
	samples                                           []map[string]any
	viol                                              map[string][]*FoundViolation
	incomplete                                        int
	distinctRuns, distinctStates                      map[uint64]struct{}
}

func newMerged() *merged {
	return &merged{faults: map[string]int{}, probes: map[string]int{}, sites: map[string]int{}, runsByScen: map[string]uint64{},
		viol: map[string][]*FoundViolation{}, distinctRuns: map[uint64]struct{}{}, distinctStates: map[uint64]struct{}{}}
}

func (m *merged) add(r *Result, hashFile string) {
	m.runs += r.Runs
	m.decisions += r.Decisions
	m.steps += r.Steps
	m.draws += r.Draws
	m.events += r.Events
	m.nontrivial += r.NontrivialRun
	m.simS += r.SimTimeS
	m.abandoned += r.Abandoned
	m.stuck += r.Stuck
	if len(m.stuckRuns) < 8 {
		m.stuckRuns = append(m.stuckRuns, r.StuckRuns...)
	}
	m.adopted += r.Adopted
	for k, v := range r.Faults {
		m.faults[k] += v
	}
	for k, v := range r.Probes {
		m.probes[k] += v
	}
	for k, v := range r.Sites {
		m.sites[k] += v
	}
	for k, v := range r.RunsByScen {
		m.runsByScen[k] += v
	}
	m.harnessErrs = append(m.harnessErrs, r.HarnessErrs...)
	if len(m.samples) < 4 {
		m.samples = append(m.samples, r.Samples...)
	}
	for _, v := range r.Violations {
		k := v.Property + "|" + v.Fingerprint
		m.viol[k] = append(m.viol[k], v)
	}
	if !r.Completed {
		m.incomplete++
	}
	if data, err := os.ReadFile(hashFile); err == nil {
		for i := 0; i+9 <= len(data); i += 9 {
			h := binary.LittleEndian.Uint64(data[i+1 : i+9])
			if data[i] == 1 {
				m.distinctRuns[h] = struct{}{}
			} else {
				m.distinctStates[h] = struct{}{}
			}
		}
	}
}

func envSeed() uint64 {
	if s := os.Getenv("VERIF_SEED"); s != "" {
		if v, err := strconv.ParseUint(s, 10, 64); err == nil {
			return v
		}
		if v, err := strconv.ParseInt(s, 10, 64); err == nil {
			return uint64(v)
		}
	}
	return 1
}

// replayFresh re-executes a replay file in a fresh process. raceEnv is non-nil for scenarios of
// the race tier: replays need the same GORACE settings, and because the schedule is not
// seed-decided there, a replay is attempted several times.
func replayFresh(bin, file, outDir string, tag string, raceEnvGlobal []string) (bool, map[string]any, error) {
	attempts := 1
	if raceEnvGlobal != nil {
		attempts = 6
	}
	var res map[string]any
	for a := 0; a < attempts; a++ {
		out := filepath.Join(outDir, fmt.Sprintf("replay-%s-%d.json", tag, a))
		job := &Job{Mode: "replay", ReplayFile: file, Out: out}
		if raceEnvGlobal != nil {
			job.Repeat = 12
		}
		mp := 1
		if raceEnvGlobal != nil {
			mp = 4
		}
		if _, err := runWorker(bin, job, mp, raceEnvGlobal...); err != nil {
			return false, nil, err
		}
		data, err := os.ReadFile(out)
		if err != nil {
			return false, nil, err
		}
		res = map[string]any{}
		if err := json.Unmarshal(data, &res); err != nil {
			return false, nil, err
		}
		if rep, _ := res["reproduced"].(bool); rep {
			return true, res, nil
		}
	}
	return false, res, nil
}

func check(prop, tier string) int {
	plan, ok := plans[prop]
	if !ok {
		trouble("no check registered for property %s", prop)
	}
	start := time.Now()
	seed := envSeed()
	type phaseT struct {
		race bool
		scen []ScenPlan
		b    *buildOut
		gmp  int
		env  []string
	}
	phases := []*phaseT{{race: plan.Race, scen: plan.Scenarios}}
	if len(plan.Micro) > 0 {
		phases = append(phases, &phaseT{scen: plan.Micro})
	}
	if len(plan.RacePhase) > 0 {
		phases = append(phases, &phaseT{race: true, scen: plan.RacePhase})
	}
	scenPhase := map[string]*phaseT{}
	nWorkers := 16
	if v := os.Getenv("VSIM_WORKERS"); v != "" {
		if n, err := strconv.Atoi(v); err == nil && n > 0 {
			nWorkers = n
		}
	}
	replayDir := filepath.Join(verifRoot, "replays")
	os.MkdirAll(replayDir, 0o755)
	// replay files of earlier runs of this check are stale by definition
	if old, _ := filepath.Glob(filepath.Join(replayDir, prop+"-*.json")); len(old) > 0 {
		for _, f := range old {
			os.Remove(f)
		}
	}
	wall := plan.QuickWallS
	if tier == "thorough" {
		wall = plan.ThoroughWallS
	}
	var crashLines []string
	m := newMerged()
	buildS := 0.0
	for pi, ph := range phases {
		t0 := time.Now()
		ph.b = build(fmt.Sprintf("%s-%s-p%d", prop, tier, pi), ph.race)
		if os.Getenv("VSIM_KEEP_BUILD") == "" { // (development aid: keep worker logs)
			defer os.RemoveAll(ph.b.dir)
		}
		buildS += time.Since(t0).Seconds()
		for _, sp := range ph.scen {
			scenPhase[sp.Name] = ph
		}
		// One P per worker: inside a quiescence step of the system simulation the order of
		// goroutines is the Go scheduler's (e.g. httputil's immediate-flush timer goroutine vs the
		// handler finishing decides chunked vs Content-Length framing); with a single P that order
		// is reproducible in practice, so exploration, minimisation and replay all run that way.
		ph.gmp = 1
		if ph.race {
			ph.gmp = 4
			ph.env = []string{"GORACE=halt_on_error=0 exitcode=0 log_path=" + filepath.Join(ph.b.dir, "race"), "VSIM_RACE_LOG=" + filepath.Join(ph.b.dir, "race")}
		}
		// split every scenario range into chunks, deal them round-robin
		jobs := make([]*Job, nWorkers)
		for w := range jobs {
			jobs[w] = &Job{Mode: "explore", Property: prop, Tier: tier, Seed: seed, Worker: w, WallS: wall,
				Out: filepath.Join(ph.b.dir, fmt.Sprintf("res-%d.json", w)), HashOut: filepath.Join(ph.b.dir, fmt.Sprintf("hash-%d.bin", w)), ReplayDir: replayDir}
		}
		k := 0
		for _, sp := range ph.scen {
			n := sp.Quick
			if tier == "thorough" {
				n = sp.Thorough
			}
			if n == 0 {
				continue
			}
			chunk := n / uint64(nWorkers*4)
			if chunk < 1 {
				chunk = 1
			}
			for from := uint64(0); from < n; from += chunk {
				to := from + chunk
				if to > n {
					to = n
				}
				j := jobs[k%nWorkers]
				j.Scenarios = append(j.Scenarios, ScenarioRange{sp.Name, from, to})
				k++
			}
		}
		var wg sync.WaitGroup
		results := make([]*Result, nWorkers)
		errs := make([]error, nWorkers)
		for w := range jobs {
			if len(jobs[w].Scenarios) == 0 {
				continue
			}
			wg.Add(1)
			go func(w int) {
				defer wg.Done()
				results[w], errs[w] = runWorker(ph.b.bin, jobs[w], ph.gmp, ph.env...)
			}(w)
		}
		wg.Wait()
		for w := range jobs {
			if errs[w] != nil {
				// keep the dead worker's whole output: the build directory is about to go
				if data, rerr := os.ReadFile(jobs[w].Out + ".log"); rerr == nil {
					os.MkdirAll(replayDir, 0o755)
					keep := filepath.Join(replayDir, fmt.Sprintf("trouble-%s-%s-worker%d.log", prop, tier, w))
					if os.WriteFile(keep, data, 0o644) == nil {
						fmt.Fprintf(os.Stderr, "vrun: the worker's full output is kept in %s\n", keep)
					}
				}
				// A Go runtime fatal error inside Helios code ("concurrent map writes" and its
				// kin) cannot be recovered by anybody: it ends the real process too. That is
				// a finding about Helios, not trouble with the harness.
				if rep := crashReport(prop, tier, w, jobs[w], replayDir); rep != "" {
					crashLines = append(crashLines, rep)
					continue
				}
				trouble("%v", errs[w])
			}
			if results[w] != nil {
				m.add(results[w], jobs[w].HashOut)
			}
		}
	}
	if len(crashLines) > 0 {
		for _, l := range crashLines {
			fmt.Println(l)
		}
		fmt.Printf("check %s %s: a worker process was ended by a Go runtime fatal error in Helios code (see above); the other results are not reported\n", prop, tier)
		return 1
	}
	b := phases[0].b
	if len(m.harnessErrs) > 0 {
		n := len(m.harnessErrs)
		if n > 3 {
			m.harnessErrs = m.harnessErrs[:3]
		}
		trouble("%d harness errors (not violations), first ones:\n%s", n, strings.Join(m.harnessErrs, "\n---\n"))
	}
	if m.runs == 0 {
		trouble("no runs executed")
	}
	if m.stuck > 0 {
		fmt.Printf("NOTE %d run(s) were abandoned by the per-run watchdog and are not part of the result (simulator wedge, e.g. %v): a goroutine waiting on a standard-library mutex whose holder waits for the simulated network stops virtual time (DESIGN section 0)\n", m.stuck, m.stuckRuns)
	}

	// violations: one representative per fingerprint, replayed in a fresh process
	known := loadKnown()
	keys := make([]string, 0, len(m.viol))
	for k := range m.viol {
		keys = append(keys, k)
	}
	sort.Strings(keys)
	exit := 0
	nViol := 0
	var knownHit []string
	var violLines []string
	// one representative per fingerprint (lowest scenario/index), minimised in parallel
	reps := map[string]*FoundViolation{}
	totals := map[string]int{}
	for _, k := range keys {
		vs := m.viol[k]
		sort.Slice(vs, func(i, j int) bool {
			if vs[i].Scenario != vs[j].Scenario {
				return vs[i].Scenario < vs[j].Scenario
			}
			return vs[i].Index < vs[j].Index
		})
		reps[k] = vs[0]
		for _, x := range vs {
			totals[k] += x.Count
		}
	}
	{
		var mwg sync.WaitGroup
		sem := make(chan struct{}, 16)
		var mmu sync.Mutex
		var merr error
		for ki, k := range keys {
			ki := ki
			v := reps[k]
			v.ReplayPath = filepath.Join(replayDir, fmt.Sprintf("%s-%s-%d-%d-%d.json", v.Property, sanitize(v.Fingerprint), seed, v.Index, ki))
			raw := map[string]any{"property": v.Property, "fingerprint": v.Fingerprint, "message": v.Message, "scenario": v.Scenario,
				"tier": tier, "base_seed": seed, "index": v.Index, "run_seed": v.RunSeed, "choices": v.Trace, "events": []string{}}
			data, _ := json.Marshal(raw)
			if err := os.WriteFile(v.ReplayPath, data, 0o644); err != nil {
				trouble("write %s: %v", v.ReplayPath, err)
			}
			// the unminimised trace is kept: if the minimised one turns out not to be stable
			// in a fresh process, the original is what gets reported
			os.WriteFile(filepath.Join(scenPhase[v.Scenario].b.dir, fmt.Sprintf("orig-%d.json", ki)), data, 0o644)
			mwg.Add(1)
			go func(k string, v *FoundViolation) {
				defer mwg.Done()
				sem <- struct{}{}
				defer func() { <-sem }()
				ph := scenPhase[v.Scenario]
				out := filepath.Join(ph.b.dir, fmt.Sprintf("min-%d.json", ki))
				budget := 20.0
				if tier == "thorough" {
					budget = 60
				}
				_, err := runWorker(ph.b.bin, &Job{Mode: "minimise", ReplayFile: v.ReplayPath, Out: out, WallS: budget}, ph.gmp, ph.env...)
				mmu.Lock()
				defer mmu.Unlock()
				if err != nil {
					merr = err
					return
				}
				if data, err := os.ReadFile(out); err == nil {
					var r struct {
						MinRuns int `json:"minimise_runs"`
						Choices int `json:"choices"`
						Orig    int `json:"orig_choices"`
					}
					json.Unmarshal(data, &r)
					v.MinRuns, v.Choices, v.OrigLen = r.MinRuns, r.Choices, r.Orig
					if rd, err := os.ReadFile(v.ReplayPath); err == nil {
						var rf struct {
							Message string `json:"message"`
						}
						if json.Unmarshal(rd, &rf) == nil && rf.Message != "" {
							v.Message = rf.Message
						}
					}
				}
			}(k, v)
		}
		mwg.Wait()
		if merr != nil {
			trouble("minimisation failed: %v", merr)
		}
	}
	for _, k := range keys {
		v := reps[k]
		total := totals[k]
		ph := scenPhase[v.Scenario]
		rep, _, err := replayFresh(ph.b.bin, v.ReplayPath, ph.b.dir, fmt.Sprintf("%d", indexOf(keys, k)), ph.env)
		if err != nil {
			trouble("replay of %s failed to run: %v", v.ReplayPath, err)
		}
		if !rep && !ph.race {
			// The minimiser runs thousands of candidates in one warm process; in the system
			// simulation the order of goroutines inside one quiescence step is the Go
			// scheduler's, so a candidate can (rarely) violate there and not in a fresh process.
			// Fall back to the unminimised trace of the exploring run.
			if orig, err2 := os.ReadFile(filepath.Join(ph.b.dir, fmt.Sprintf("orig-%d.json", indexOf(keys, k)))); err2 == nil {
				os.WriteFile(v.ReplayPath, orig, 0o644)
				rep, _, err = replayFresh(ph.b.bin, v.ReplayPath, ph.b.dir, fmt.Sprintf("%d-orig", indexOf(keys, k)), ph.env)
				if err != nil {
					trouble("replay of %s failed to run: %v", v.ReplayPath, err)
				}
				if rep {
					fmt.Printf("NOTE property=%s fingerprint=%s: the minimised trace did not reproduce in a fresh process; the unminimised trace (%d choices) is reported instead\n", v.Property, v.Fingerprint, v.OrigLen)
					v.Choices = v.OrigLen
				}
				// Still not: the run may depend on process-level state of Helios (package
				// variables) left behind by the runs before it. Replay it after its predecessors.
				ki := indexOf(keys, k)
				for _, wk := range []uint64{1, 4, 16, 64} {
					if rep {
						break
					}
					var raw map[string]any
					if json.Unmarshal(orig, &raw) != nil {
						break
					}
					raw["warmup_runs"] = wk
					wd, _ := json.Marshal(raw)
					os.WriteFile(v.ReplayPath, wd, 0o644)
					rep, _, err = replayFresh(ph.b.bin, v.ReplayPath, ph.b.dir, fmt.Sprintf("%d-warm%d", ki, wk), ph.env)
					if err != nil {
						trouble("replay of %s failed to run: %v", v.ReplayPath, err)
					}
					if rep {
						fmt.Printf("NOTE property=%s fingerprint=%s: reproduces only after the %d preceding run(s) of the same process: Helios keeps state at process level (package variables) that survives between simulated runs; the replay file executes them first (warmup_runs)\n", v.Property, v.Fingerprint, wk)
						v.Choices = v.OrigLen
					}
				}
			}
		}
		if !rep && ph.race {
			// race tier: the workload is seed-determined, the schedule is not; the detector's
			// report (kept in the replay file) stands on its own
			fmt.Printf("NOTE property=%s fingerprint=%s: the race report did not recur in 72 replays of %s (schedule not seed-decided)\n", v.Property, v.Fingerprint, v.ReplayPath)
		} else if !rep {
			fmt.Printf("NONDETERMINISM property=%s fingerprint=%s replay=%s did not reproduce in a fresh process\n", v.Property, v.Fingerprint, v.ReplayPath)
			trouble("a violation did not reproduce from its replay file; treating as harness trouble")
		}
		isKnown := false
		for _, kf := range known {
			if kf.Property == v.Property && kf.Fingerprint == v.Fingerprint && kf.Status == "open" {
				isKnown = true
				line := fmt.Sprintf("KNOWN-FINDING: property=%s %s [fingerprint=%s runs=%d replay=%s]", v.Property, kf.What, v.Fingerprint, total, v.ReplayPath)
				fmt.Println(line)
				knownHit = append(knownHit, line)
			}
		}
		if v.Property != prop {
			// a scenario may carry oracles of other properties; they are reported by their own check
			continue
		}
		if !isKnown {
			nViol++
			exit = 1
			line := fmt.Sprintf("VIOLATION property=%s replay=%s", v.Property, v.ReplayPath)
			fmt.Println(line)
			fmt.Printf("  fingerprint=%s runs=%d/%d minimised %d->%d choices\n  %s\n", v.Fingerprint, total, m.runs, v.OrigLen, v.Choices, v.Message)
			violLines = append(violLines, line)
		}
	}

	// every open finding listed for this property is named on every run, drawn or not
	for _, kf := range known {
		if kf.Property != prop || kf.Status != "open" {
			continue
		}
		hit := false
		for _, l := range knownHit {
			if strings.Contains(l, "[fingerprint="+kf.Fingerprint+" ") {
				hit = true
			}
		}
		if !hit {
			fmt.Printf("KNOWN-FINDING: property=%s %s [fingerprint=%s not drawn in this run]\n", prop, kf.What, kf.Fingerprint)
		}
	}
	if exit == 0 && m.stuck > 10 && uint64(m.stuck)*100 > m.runs {
		trouble("%d of %d runs wedged the simulator and were abandoned: too many for a clean verdict", m.stuck, m.runs+uint64(m.stuck))
	}
	wallS := time.Since(start).Seconds()
	writeEvidence(prop, tier, seed, plan, m, b, wallS, buildS, nViol, knownHit)
	fmt.Printf("check %s %s: runs=%d distinct=%d decisions=%d sim_time=%.0fs wall=%.1fs (build %.1fs) violations=%d known=%d\n",
		prop, tier, m.runs, len(m.distinctRuns), m.decisions, m.simS, wallS, buildS, nViol, len(knownHit))
	return exit
}

func indexOf(keys []string, k string) int {
	for i, x := range keys {
		if x == k {
			return i
		}
	}
	return -1
}

func sanitize(s string) string {
	var b strings.Builder
	for _, c := range s {
		if (c >= 'a' && c <= 'z') || (c >= 'A' && c <= 'Z') || (c >= '0' && c <= '9') || c == '-' || c == '_' {
			b.WriteRune(c)
		} else {
			b.WriteByte('_')
		}
	}
	r := b.String()
	if len(r) > 80 {
		r = r[:80]
	}
	return r
}

func writeEvidence(prop, tier string, seed uint64, plan *Plan, m *merged, b *buildOut, wallS, buildS float64, nViol int, knownHit []string) {
	if len(plan.RacePhase) > 0 {
		// (a copy: the plan tables are shared)
		var names []string
		for _, sp := range plan.RacePhase {
			names = append(names, sp.Name)
		}
		cp := *plan
		note := "goroutine scheduling in the race-tier phase (" + strings.Join(names, ", ") + "): NOT simulated (free-running goroutines, Go runtime under the race detector)"
		has := false
		for _, st := range cp.Stub {
			if strings.HasPrefix(st, "goroutine scheduling in the") {
				has = true
			}
		}
		if !has {
			cp.Stub = append(append([]string{}, cp.Stub...), note)
		}
		cp.Assumptions = append(append([]string{}, cp.Assumptions...), "race-tier phase ("+strings.Join(names, ", ")+"): the workload is seed-determined, the schedule is not; a violation found there is reported with the run that produced it and may not recur on replay; race-detector reports confined to the code the property rests on count as violations of the property")
		cp.Rule += " Race-tier phase: scenario(s) " + strings.Join(names, ", ") + " in a -race build with GOMAXPROCS=4 and free-running goroutines (see DESIGN.md 10.3, waves 17-18)."
		plan = &cp
	}
	sites := make([]string, 0, len(m.sites))
	for s := range m.sites {
		sites = append(sites, s)
	}
	sort.Strings(sites)
	zeroProbes := []string{}
	for _, p := range plan.ExpectProbes {
		if m.probes[p] == 0 {
			zeroProbes = append(zeroProbes, p)
		}
	}
	distinct := len(m.distinctRuns)
	cov := map[string]any{
		"evaluations":         m.runs,
		"distinct_nontrivial": distinct,
		"rule": "one evaluation = one simulated run (one seed = one choice trace) of the listed scenarios inside a testing/synctest bubble; " +
			"a run is non-trivial when at least one fault fired or at least one scheduling decision had >= 2 enabled alternatives; " +
			"two runs are distinct when the hash of (schedule sequence of (task, file:line), event log) differs; distinct_nontrivial counts distinct hashes among non-trivial runs. " + plan.Rule,
		"samples":                   m.samples,
		"runs_by_scenario":          m.runsByScen,
		"runs_per_hour":             int(float64(m.runs) / (wallS - buildS + 0.001) * 3600),
		"simulated_time_s":          m.simS,
		"fault_kinds_fired":         m.faults,
		"rare_condition_probes":     m.probes,
		"probes_stuck_at_zero":      zeroProbes,
		"schedule_decisions_ge2":    m.decisions,
		"schedule_steps":            m.steps,
		"choice_draws":              m.draws,
		"events_logged":             m.events,
		"nontrivial_runs":           m.nontrivial,
		"distinct_abstract_states":  len(m.distinctStates),
		"sync_sites_reached":        sites,
		"abandoned_goroutine_runs":  m.abandoned,
		"stuck_runs_abandoned":      m.stuck,
		"adopted_goroutines":        m.adopted,
		"workers_hit_wall_budget":   m.incomplete,
		"real_components":           plan.Real,
		"stub_components":           plan.Stub,
		"instrumentation":           b.vinstr,
		"known_findings_reproduced": knownHit,
		"build_s":                   buildS,
		"exhaustive":                false,
	}
	ev := map[string]any{
		"property_id": prop,
		"tier":        tier,
		"seed":        seed,
		"level":       plan.Level,
		"coverage":    cov,
		"assumptions": plan.Assumptions,
		"wall_s":      wallS,
		"violations":  nViol,
	}
	data, _ := json.MarshalIndent(ev, "", " ")
	os.MkdirAll(filepath.Join(verifRoot, "evidence"), 0o755)
	if err := os.WriteFile(filepath.Join(verifRoot, "evidence", prop+".json"), data, 0o644); err != nil {
		trouble("write evidence: %v", err)
	}
}

// ---------------------------------------------------------------------------
// replay command

func replayCmd(file string) int {
	data, err := os.ReadFile(file)
	if err != nil {
		trouble("read %s: %v", file, err)
	}
	var rf struct {
		Property    string `json:"property"`
		Fingerprint string `json:"fingerprint"`
		Scenario    string `json:"scenario"`
	}
	json.Unmarshal(data, &rf)
	if strings.Contains(string(data), `"kind": "process-crash"`) {
		fmt.Printf("%s is the report of a worker process ended by a Go runtime fatal error (%s): there is no seeded schedule to replay; run the check again (bin/vcheck check %s quick)\n", file, rf.Fingerprint, rf.Property)
		return 0
	}
	race := false
	if p, ok := plans[rf.Property]; ok && p.Race {
		race = true
		for _, sp := range p.Micro {
			if sp.Name == rf.Scenario {
				race = false
			}
		}
	}
	if p, ok := plans[rf.Property]; ok {
		for _, sp := range p.RacePhase {
			if sp.Name == rf.Scenario {
				race = true
			}
		}
	}
	b := build("replay", race)
	defer os.RemoveAll(b.dir)
	var raceEnvGlobal []string
	if race {
		raceEnvGlobal = []string{"GORACE=halt_on_error=0 exitcode=0 log_path=" + filepath.Join(b.dir, "race"), "VSIM_RACE_LOG=" + filepath.Join(b.dir, "race")}
	}
	abs, _ := filepath.Abs(file)
	rep, res, err := replayFresh(b.bin, abs, b.dir, "cmd", raceEnvGlobal)
	if err != nil {
		trouble("%v", err)
	}
	if evs, ok := res["events"].([]any); ok {
		w := bufio.NewWriter(os.Stdout)
		for _, e := range evs {
			fmt.Fprintln(w, e)
		}
		w.Flush()
	}
	fmt.Printf("log_hash=%v\n", res["log_hash"])
	if rep {
		fmt.Printf("VIOLATION property=%s replay=%s\n  fingerprint=%s (reproduced)\n", rf.Property, file, rf.Fingerprint)
		return 1
	}
	fmt.Printf("replay of %s: violation %s NOT reproduced on this tree\n", file, rf.Fingerprint)
	return 0
}

// ---------------------------------------------------------------------------
// determinism self-test

func selftestDeterminism(args []string) int {
	n := uint64(40)
	var scen []string
	for _, a := range args {
		if v, err := strconv.ParseUint(a, 10, 64); err == nil {
			n = v
		} else {
			scen = append(scen, a)
		}
	}
	if len(scen) == 0 {
		seen := map[string]bool{}
		for _, p := range plans {
			list := p.Scenarios
			if p.Race {
				list = p.Micro
			}
			for _, s := range list {
				if !seen[s.Name] {
					seen[s.Name] = true
					scen = append(scen, s.Name)
				}
			}
		}
		sort.Strings(scen)
	}
	b := build("selftest", false)
	defer os.RemoveAll(b.dir)
	seed := envSeed()
	system := map[string]bool{"sysxfer": true, "sysfault": true, "sysplug": true, "sysids": true, "sysws": true, "sysstop": true}
	runSet := func(scen []string, configs []int, tag string) (int, int) {
		if len(scen) == 0 {
			return 0, 0
		}
		all := make([]map[string]string, len(configs))
		var wg sync.WaitGroup
		var mu sync.Mutex
		var firstErr error
		for i, g := range configs {
			wg.Add(1)
			go func(i, g int) {
				defer wg.Done()
				job := &Job{Mode: "hashes", Tier: "quick", Seed: seed, Worker: i, Out: filepath.Join(b.dir, fmt.Sprintf("h-%s-%d.json", tag, i)), ReplayDir: filepath.Join(b.dir, "replays")}
				for _, s := range scen {
					job.Scenarios = append(job.Scenarios, ScenarioRange{s, 0, n})
				}
				r, err := runWorker(b.bin, job, g)
				mu.Lock()
				defer mu.Unlock()
				if err != nil {
					firstErr = err
					return
				}
				all[i] = r.LogHashes
			}(i, g)
		}
		wg.Wait()
		if firstErr != nil {
			trouble("%v", firstErr)
		}
		bad := 0
		keys := make([]string, 0, len(all[0]))
		for k := range all[0] {
			keys = append(keys, k)
		}
		sort.Strings(keys)
		for _, k := range keys {
			for i := 1; i < len(all); i++ {
				if all[i][k] != all[0][k] {
					bad++
					fmt.Printf("MISMATCH %s: process0(GOMAXPROCS=%d)=%s process%d(GOMAXPROCS=%d)=%s\n", k, configs[0], all[0][k], i, configs[i], all[i][k])
					break
				}
			}
		}
		fmt.Printf("determinism self-test (%s): %d scenarios x %d seeds x %d processes (GOMAXPROCS %v): %d mismatching runs of %d\n", tag, len(scen), n, len(configs), configs, bad, len(keys))
		return bad, len(keys)
	}
	var micro, sys []string
	for _, s := range scen {
		if system[s] {
			sys = append(sys, s)
		} else {
			micro = append(micro, s)
		}
	}
	// micro-sim: the schedule is the simulator's; invariant under GOMAXPROCS
	mb, _ := runSet(micro, []int{1, 4, 16, 1, 4, 16}, "micro-sim")
	// system-sim: run the way checks run it (one P); a residual divergence well below 1% is
	// tolerated and reported (goroutine order inside one quiescence step is Go's)
	sb, st := runSet(sys, []int{1, 1, 1, 1, 1, 1}, "system-sim")
	if mb > 0 || (st > 0 && sb*200 > st) {
		return 2
	}
	return 0
}

func main() {
	if len(os.Args) < 2 {
		fmt.Fprintln(os.Stderr, "usage: vrun check <Cxx> [quick|thorough] | replay <file> | selftest determinism [n] [scenario...]")
		os.Exit(2)
	}
	switch os.Args[1] {
	case "check":
		if len(os.Args) < 3 {
			trouble("check needs a property id")
		}
		tier := "quick"
		if len(os.Args) > 3 {
			tier = os.Args[3]
		}
		if t := os.Getenv("VERIF_TIER"); t != "" && len(os.Args) <= 3 {
			tier = t
		}
		os.Exit(check(os.Args[2], tier))
	case "replay":
		if len(os.Args) < 3 {
			trouble("replay needs a file")
		}
		os.Exit(replayCmd(os.Args[2]))
	case "debug":
		// vrun debug <property> <scenario> <from> <to> [gomaxprocs]: print full logs of runs
		if len(os.Args) < 6 {
			trouble("usage: debug <property> <scenario> <from> <to> [gomaxprocs]")
		}
		b := build("debug", false)
		defer os.RemoveAll(b.dir)
		from, _ := strconv.ParseUint(os.Args[4], 10, 64)
		to, _ := strconv.ParseUint(os.Args[5], 10, 64)
		g := 2
		if len(os.Args) > 6 {
			g, _ = strconv.Atoi(os.Args[6])
		}
		job := &Job{Mode: "hashes", Property: os.Args[2], Tier: "quick", Seed: envSeed(), Scenarios: []ScenarioRange{{os.Args[3], from, to}}, Out: filepath.Join(b.dir, "dbg.json"), ReplayDir: b.dir}
		_, err := runWorker(b.bin, job, g, "VSIM_DEBUG=2")
		data, _ := os.ReadFile(job.Out + ".log")
		os.Stdout.Write(data)
		if err != nil {
			trouble("%v", err)
		}
	case "stability":
		// vrun stability <replay file> [n]: (development aid) minimise a copy of the file, then
		// replay original and minimised traces n times each in fresh processes
		if len(os.Args) < 3 {
			trouble("usage: stability <replay file> [n]")
		}
		n := 5
		if len(os.Args) > 3 {
			n, _ = strconv.Atoi(os.Args[3])
		}
		b := build("stability", false)
		defer os.RemoveAll(b.dir)
		data, err := os.ReadFile(os.Args[2])
		if err != nil {
			trouble("%v", err)
		}
		orig := filepath.Join(b.dir, "orig.json")
		min := filepath.Join(b.dir, "min.json")
		os.WriteFile(orig, data, 0o644)
		os.WriteFile(min, data, 0o644)
		if _, err := runWorker(b.bin, &Job{Mode: "minimise", ReplayFile: min, Out: filepath.Join(b.dir, "min-out.json"), WallS: 20}, 1); err != nil {
			trouble("%v", err)
		}
		mo, _ := os.ReadFile(filepath.Join(b.dir, "min-out.json"))
		fmt.Printf("minimise: %s\n", mo)
		for _, f := range []string{orig, min} {
			ok := 0
			hashes := map[string]int{}
			for i := 0; i < n; i++ {
				rep, res, err := replayFresh(b.bin, f, b.dir, fmt.Sprintf("st-%d", i), nil)
				if err != nil {
					trouble("%v", err)
				}
				if rep {
					ok++
				}
				hashes[fmt.Sprint(res["log_hash"])]++
			}
			fmt.Printf("%s: reproduced %d/%d in fresh processes, log hashes %v\n", filepath.Base(f), ok, n, hashes)
		}
		{
			// the same minimised trace replayed repeatedly inside one (warming) process
			out := filepath.Join(b.dir, "warm.json")
			if _, err := runWorker(b.bin, &Job{Mode: "replay", ReplayFile: min, Out: out, Repeat: 8}, 1); err != nil {
				trouble("%v", err)
			}
			var res map[string]any
			rd, _ := os.ReadFile(out)
			json.Unmarshal(rd, &res)
			fmt.Printf("min.json in one process, up to 8 tries: reproduced=%v at try %v\n", res["reproduced"], res["tries"])
		}
		if len(os.Args) > 4 {
			out, _ := os.ReadFile(min)
			os.WriteFile(os.Args[4], out, 0o644)
		}
	case "selftest":
		if len(os.Args) >= 3 && os.Args[2] == "determinism" {
			os.Exit(selftestDeterminism(os.Args[3:]))
		}
		trouble("unknown selftest")
	default:
		trouble("unknown command %q", os.Args[1])
	}
}
