package main

// Per-property check plans: which scenarios, how many runs per tier.

type ScenPlan struct {
	Name     string
	Quick    uint64
	Thorough uint64
}

type Plan struct {
	Level         string
	Race          bool
	Scenarios     []ScenPlan
	RacePhase     []ScenPlan // extra phase of a check whose main phase is not race-tier: scenarios run in free mode in a -race build
	Micro         []ScenPlan // second phase of a race-tier check: scenarios run under the controlled scheduler (no -race build)
	QuickWallS    float64 // per-worker wall-clock cap (safety net; run counts are the budget)
	ThoroughWallS float64
	Rule          string
	Real          []string
	Stub          []string
	Assumptions   []string
	ExpectProbes  []string
}

var commonAssumptions = []string{
	"Go 1.26.8 toolchain and standard library (testing/synctest fake clock and quiescence) stand in for the toolchain Helios ships with; //go:debug asynctimerchan=0",
	"Helios sources are instrumented by type substitution (tools/vinstr) into a build overlay; /repo is not modified; internal/logging's logger lock is not instrumented",
	"sampling, not enumeration: a clean batch is evidence, not proof",
}

var microReal = []string{"internal/circuitbreaker", "internal/ratelimiter", "internal/loadbalancer (strategies, health, pool, ServeHTTP)", "internal/metrics", "internal/adminapi", "internal/plugins", "internal/logging middleware", "internal/utils", "net/http/httputil.ReverseProxy"}
var microStub = []string{"backend connections (scripted RoundTripper behind the WrapTransport/WrapClient seam)", "http.Server front (in-memory ResponseWriter with Flusher/Hijacker)", "clock (synctest fake clock)", "goroutine choice at every sync/atomic/go seam (seeded scheduler)"}

var sysReal = []string{"cmd/helios buildHandler + createHTTPServer", "net/http.Server", "internal/loadbalancer", "net/http/httputil.ReverseProxy", "net/http.Transport", "internal/plugins", "internal/logging middleware", "internal/metrics", "internal/circuitbreaker", "internal/ratelimiter"}
var sysStub = []string{"TCP/IP (simnet: in-memory, driver-mediated delivery)", "backends (scripted byte-level HTTP/1.1 peers)", "clients (raw HTTP/1.1 writers/readers)", "clock (synctest)", "main()/signals/TLS not run"}

var plans = map[string]*Plan{
	"C07": {
		Level:     "exploration",
		Scenarios: []ScenPlan{{"cb", 60000, 1500000}, {"lbcb", 20000, 400000}},
		QuickWallS: 90, ThoroughWallS: 1500,
		Rule:        "Scenario lbcb: the breaker as wired in the balancer (config drawn from the validator's accepted space; 5xx / unreachable / aborted responses; N failures must open, open must reject without backend contact). Scenario cb: real CircuitBreaker, (failure_threshold, success_threshold, max_requests) in 1..3^3, interval/timeout 1..10s, 1-4 client tasks with drawn scripts of exec(ok|fail|panic, duration)/sleep; history checked against the C07 envelope rules.",
		Real:        []string{"internal/circuitbreaker (instrumented)"},
		Stub:        []string{"the protected call (a harness closure that sleeps on the fake clock and then succeeds, fails or panics)", "clock", "goroutine choice at sync seams"},
		Assumptions: commonAssumptions,
		ExpectProbes: []string{"two-trials-in-half-open", "rejected-while-open", "breaker-transitioned"},
	},
	"C08": {
		Level:     "exploration",
		Scenarios: []ScenPlan{{"cb", 60000, 1500000}, {"lbcb", 20000, 400000}},
		QuickWallS: 90, ThoroughWallS: 1500,
		Rule:        "Scenario lbcb: wired breaker with accepted configurations, recovery through ServeHTTP, deadlock detection on state-change notifications. Scenario cb followed by the recovery script (advance past timeout, then successful requests one at a time); deadlock / no-progress detection by the scheduler's wait-for graph.",
		Real:        []string{"internal/circuitbreaker (instrumented)"},
		Stub:        []string{"the protected call", "clock", "goroutine choice at sync seams"},
		Assumptions: commonAssumptions,
		ExpectProbes: []string{"recovered", "breaker-transitioned"},
	},
	"C02": {
		Level:     "exploration",
		Scenarios: []ScenPlan{{"lbhealth", 30000, 600000}},
		QuickWallS: 120, ThoroughWallS: 1500,
		Rule:        "Scenario lbhealth: real LoadBalancer, 1-6 scripted backends, every strategy, passive threshold 1-4, window 1-20s, optional active probing; drawn steps (request, burst, backend mode change, probe mode change, time passes) with a health observation through ListBackends/GetMetrics at every quiescent point; oracle: no dispatch into an observed unhealthy window, 503 only if no backend is outside every window.",
		Real:        microReal, Stub: microStub, Assumptions: commonAssumptions,
		ExpectProbes: []string{"ejection", "no-healthy-503", "recovered"},
	},
	"C04": {
		Level:     "exploration",
		Scenarios: []ScenPlan{{"lbhealth", 30000, 600000}},
		QuickWallS: 120, ThoroughWallS: 1500,
		Rule:        "Scenario lbhealth (see C02) with the cause/ejection envelope (ejection only after threshold failures or a failed probe; threshold failures in a row or a failed probe must eject), window enforcement, reporting (admin + metrics) and a bounded recovery workload per strategy after the window.",
		Real:        microReal, Stub: microStub, Assumptions: commonAssumptions,
		ExpectProbes: []string{"ejection", "recovered"},
	},
	"C05": {
		Level:     "exploration",
		Scenarios: []ScenPlan{{"lbdist", 40000, 800000}, {"sysws", 3000, 60000}},
		QuickWallS: 120, ThoroughWallS: 1500,
		Rule:        "Scenario lbdist: pools of 1-6 (thorough 1-8) backends, weights 0-6, a drawn history of add/remove(heaviest-biased)/eject-through-real-failures/recover/traffic, then a measurement window with a stable eligible set: round_robin exact window and exact totals under 2-8 (thorough 2-64) concurrent pickers; weighted_round_robin exact fresh-pool windows at every offset and the 2*W_total/W_eligible bound over every sub-window after a history; least_connections minimal in-flight against the harness' own tallies of held requests (also for requests of clients that are already gone). Scenario sysws (system simulation): after a WebSocket tunnel has ended, a held request and the next one go to different backends under least_connections.",
		Real:        microReal, Stub: microStub, Assumptions: commonAssumptions,
		ExpectProbes: []string{"rr-concurrent", "wrr-fresh", "wrr-history", "lc-dispatch"},
	},
	"C06": {
		Level:     "exploration",
		Scenarios: []ScenPlan{{"lbaff", 12000, 60000}},
		RacePhase: []ScenPlan{{"sysrace", 600, 9000}},
		QuickWallS: 120, ThoroughWallS: 1500,
		Rule:        "Scenario lbaff: ip_hash / ip_hash_consistent, 1-6 backends, 16-64 (thorough 64-512) client identities (IPv4/IPv6 peers, X-Forwarded-For single/list/junk, X-Real-IP) issuing sequential and concurrent requests with varying paths/ports/headers across a drawn history of appends, removes, ejections and expiries (epochs); oracle: one identity -> one backend per epoch, append moves a key only to the appended backend, every choice eligible, no panic. The exhaustive 2^32 sweep of the hash step is NOT performed (pure function; DESIGN.md §4).",
		Real:        microReal, Stub: microStub, Assumptions: commonAssumptions,
		ExpectProbes: []string{"append-moved-key", "concurrent-traffic"},
	},
	"C13": {
		Level:     "exploration",
		Scenarios: []ScenPlan{{"lbacct", 30000, 600000}, {"sysfault", 8000, 150000}, {"sysws", 3000, 40000}, {"sysxfer", 4000, 60000}, {"lbmix", 8000, 200000}},
		RacePhase: []ScenPlan{{"sysrace", 800, 12000}},
		QuickWallS: 120, ThoroughWallS: 1500,
		Rule:        "Scenario lbacct: every request class (ok, 4xx, 5xx, unreachable, aborted mid-body, client gone, rate-limited, breaker-rejected, no healthy backend, held) sequentially and with 2-8 (thorough 2-64) concurrent clients; conservation equations against the harness' own tallies at every quiescent point. Scenario lbmix: the books balance after traffic interleaved with admin adds and removes, strategy switches, ejections and Stop.",
		Real:        microReal, Stub: microStub, Assumptions: commonAssumptions,
		ExpectProbes: []string{"concurrent-mix", "gauge-while-held"},
	},
	"C11": {
		Level:     "exploration",
		Scenarios: []ScenPlan{{"lbadmin", 30000, 600000}, {"lbmix", 8000, 200000}},
		QuickWallS: 120, ThoroughWallS: 1500,
		Rule:        "Scenario lbadmin: the real adminapi mux; a sequential phase and a concurrent phase (2-4 admin actors, 0-3 traffic tasks) over add/remove/set_strategy/list with repeated names, absent names, unparsable addresses, unknown strategies; step-stamped history (<= 48 ops) checked with porcupine against a sequential multiset model; traffic must be served (a permanent backend exists) and never by a definitely-removed backend; strategy switch must preserve health. Scenario lbmix (traffic, listings, adds/removes, strategy switches and ejections from concurrent tasks with stalls): nothing may block (requests arriving during any change are served normally: that includes not deadlocking against the change).",
		Real:        microReal, Stub: microStub, Assumptions: append(append([]string{}, commonAssumptions...), "porcupine v1.3.0 decides linearizability; Unknown (timeout) results are counted, never reported"),
		ExpectProbes: []string{"concurrent-admin", "linearizable", "switch-with-ejected-backend"},
	},
	"C09": {
		Level:     "exploration",
		Scenarios: []ScenPlan{{"rl", 40000, 800000}, {"rllb", 8000, 100000}},
		QuickWallS: 120, ThoroughWallS: 1500,
		Rule:        "Scenario rl: the real TokenBucketRateLimiter, max_tokens 1-5, refill 1s-2h, 1-4 clients with drawn arrival scripts on the fake clock (sequential requests, same-instant bursts of 2-8 (thorough up to 64) tasks, gaps of fractions/multiples of refill, idle hours so the hourly bucket expiry runs); oracle: every pair of admissions within max+floor(T/refill)+1, same-instant <= max, full first burst, refill after idling, isolation by differential execution against a second limiter that only sees client A. Scenario rllb: limiter wired in the balancer: 429 not forwarded and counted, client-key precedence XFF > X-Real-IP > peer.",
		Real:        microReal, Stub: microStub, Assumptions: commonAssumptions,
		ExpectProbes: []string{"concurrent-burst", "idle-beyond-bucket-expiry", "lb-level-429"},
	},
	"C19": {
		Level:     "exploration",
		Scenarios: []ScenPlan{{"lbstop", 30000, 600000}, {"sysstop", 8000, 150000}, {"wspool", 12000, 250000}},
		QuickWallS: 120, ThoroughWallS: 1500,
		Rule:        "Scenario lbstop: balancer with active probing (interval 2-6s, fast/slow/refusing/failing probe endpoints), Stop() at a drawn virtual instant (before the first probe, mid-probe, between ticks, at a tick) under a drawn interleaving, 1-3 repeated or concurrent Stop calls, optional traffic; oracle: Stop returns within one probe timeout, no probe after the first Stop returned, no WaitGroup Add racing Wait at zero. Scenario sysstop: the real shutdownGracefully over simnet with 1-4 requests in flight (before headers, mid-body, longer than the timeout), optional active probing with slow probes, a second call; bounded return, in-flight requests that fit complete in full, no probe after return. Scenario wspool (the connection pool whose Shutdown Stop calls; the balancer itself never parks a connection in it): Shutdown in the middle of pool traffic and at the instant of a cleanup tick over stale connections returns and leaves no parked connection open.",
		Real:        append(append([]string{}, microReal...), "cmd/helios shutdownGracefully + net/http.Server.Shutdown (sysstop)"), Stub: append(append([]string{}, microStub...), "OS signal delivery (the shutdown branch is called directly; main() is not run)"), Assumptions: commonAssumptions,
		ExpectProbes: []string{"repeated-stop", "shutdown-returned", "in-flight-at-shutdown", "second-shutdown"},
	},
	"C20": {
		Level:     "exploration",
		Scenarios: []ScenPlan{{"wspool", 40000, 800000}, {"sysws", 8000, 150000}},
		RacePhase: []ScenPlan{{"wsrace", 320, 4800}},
		QuickWallS: 120, ThoroughWallS: 1500,
		Rule:        "Scenario wspool: the real WebSocketPool, max_idle 0-3, idle_timeout 1-90s, 1-2 backends, 1-3 holder tasks with drawn scripts over get/put(new)/put(held)/close/sleep/stats, cleanup ticks on the fake clock, shutdown; exclusivity, staleness, idle bound, shutdown closure checked against the harness' own view of every connection. Scenario sysws: an Upgrade session through the real server and every drawn plugin chain (logging, size_limit, gzip, headers, custom-auth, request-id in drawn order) to a scripted backend answering 101; both ends send drawn binary chunks (0-100KB) in a drawn interleaving with fragmentation and delays, one side closes at a drawn point; received stream == sent stream (prefix towards the closer), close propagates within 2 simulated minutes.",
		Real:        append([]string{"internal/loadbalancer WebSocketPool (instrumented)"}, sysReal...), Stub: append([]string{"pooled connections (in-memory fake net.Conn)"}, sysStub...), Assumptions: commonAssumptions,
		ExpectProbes: []string{"pool-hit", "shutdown", "tunnel-established"},
	},
	"C16": {
		Level:     "exploration",
		Scenarios: []ScenPlan{{"ids", 6000, 40000}, {"sysxfer", 6000, 120000}, {"sysids", 4000, 60000}, {"sysws", 3000, 40000}},
		RacePhase: []ScenPlan{{"idsrace", 480, 8000}},
		QuickWallS: 120, ThoroughWallS: 1500,
		Rule:        "Scenario ids: the real RequestContextMiddleware, default/custom header names, features on/off, client-supplied values (empty, padded, long, unusual), 1-8 (thorough 8-64) concurrent tasks generating identifiers at one frozen virtual instant; pairwise distinctness, echo, handler-sees-what-client-gets. Scenario sysxfer: the same invariants on every exchange of the system-level transparency runs. Scenario sysids: every response path behind the real server (proxied, 401 custom-auth, 413 size_limit, 429 limiter, 503 no healthy backend / breaker open). Scenario idsrace (race-tier phase, -race build, GOMAXPROCS=4): 8-32 free-running goroutines x 100-600 (thorough up to 4000) requests without identifiers through the real middleware; generated identifiers pairwise distinct, handler sees what the client gets; race reports and panics.",
		Real:        sysReal, Stub: append(append([]string{}, sysStub...), "goroutine scheduling in the idsrace phase: NOT simulated (free-running goroutines, Go runtime under the race detector)"), Assumptions: append(append([]string{}, commonAssumptions...), "idsrace phase: the workload is seed-determined, the schedule is not; a duplicate identifier found there is reported with the run that produced it and may not recur on replay"),
		ExpectProbes: []string{"ids-generated", "path-429", "path-401", "path-413", "path-503", "ids-generated-in-parallel"},
	},
	"C01": {
		Level:     "exploration",
		Scenarios: []ScenPlan{{"sysxfer", 12000, 250000}, {"sysfault", 6000, 100000}},
		QuickWallS: 150, ThoroughWallS: 1700,
		Rule:        "Scenario sysxfer: real http.Server + handler chain + balancer + ReverseProxy + http.Transport over simnet; 1-3 raw clients, 1-4 scripted backends (optional base paths), 3-10 exchanges per run with drawn methods, escaped paths, multi-valued / odd-cased headers, bodies 0-200KB in Content-Length or chunked framing split into writes, every status class incl. 103/204/304/3xx/4xx/5xx, streamed responses (chunked / SSE with 2-5s pauses); the seed picks the interleaving of deliveries, fragment sizes and small delays. Differential oracle: what each end sent vs what the other end received; flushed bytes must arrive before the backend's next write (fake-clock timestamps). Scenario sysfault (backend and client faults): a response the backend ends early (short body, stall until Helios gives up) is never presented to the client as a complete one, whatever the framing.",
		Real:        sysReal, Stub: sysStub, Assumptions: commonAssumptions,
		ExpectProbes: []string{"stream-gap-checked"},
	},
	"C03": {
		Level:     "exploration",
		Scenarios: []ScenPlan{{"sysfault", 16000, 300000}, {"lbmix", 12000, 300000}},
		QuickWallS: 150, ThoroughWallS: 1700,
		Rule:        "Scenario sysfault: the real stack over simnet with swarm configuration (every strategy; breaker, limiter, passive/active checks, plugins each on or off; read/write/backend_dial/backend_read timeouts 1-10s) and a drawn fault sequence of length 2-6 (thorough 2-12) over {refuse, dial black-hole, hang-headers, reset-after-headers, short-body, garbage, 5xx, slow-body, stall-after-headers, client-abort-upload, client-abort-download}, sequential and overlapping (1-3 clients); oracle: no panic, every request ends within read+write+backend_dial+backend_read+1s, after faults stop a recovery request is served normally. Scenario lbmix (micro-sim, seeded cooperative scheduler): concurrent traffic with backend faults (5xx, unreachable, aborted body, slow answers), admin and metrics tasks, probes, elapsed windows and task stalls; after the faults stop a request to a healthy backend must succeed; wait-for cycles, leaked locks, spinning and panics after injected faults are C03 violations with a replayable schedule.",
		Real:        sysReal, Stub: sysStub, Assumptions: commonAssumptions,
		ExpectProbes: []string{"recovered", "clean-exchange-ok"},
	},
	"C14": {
		Level:     "exploration",
		Scenarios: []ScenPlan{{"sysplug", 12000, 250000}},
		QuickWallS: 150, ThoroughWallS: 1700,
		Rule:        "Scenario sysplug with size_limit in a drawn chain position (optionally with gzip/logging): limits 1-4096 drawn small; request bodies limit-1/limit/limit+1/3x in declared and chunked framing; response bodies likewise, split into writes by the script and fragmented by the network; statuses incl. bodiless (HEAD, 204, 304, 302, empty 4xx/5xx); oracle: backend-received body <= limit, declared oversize => 413 without backend contact, client-received body <= limit, 413 when the first write already exceeds, within limits the C01 differential oracle.",
		Real:        sysReal, Stub: sysStub, Assumptions: commonAssumptions,
		ExpectProbes: []string{"request-over-limit-declared", "request-over-limit-chunked", "request-exactly-at-limit", "response-over-limit", "response-exactly-at-limit"},
	},
	"C15": {
		Level:     "exploration",
		Scenarios: []ScenPlan{{"sysplug", 12000, 250000}, {"sysfault", 8000, 120000}},
		RacePhase: []ScenPlan{{"sysrace", 600, 9000}},
		QuickWallS: 150, ThoroughWallS: 1700,
		Rule:        "Scenario sysplug with gzip in a drawn chain position (optionally with size_limit/logging): Accept-Encoding spellings, content types in/outside the configured prefixes, sizes around min_size, compressible/incompressible payloads, pre-encoded backend responses (gzip, br), levels -1..9, bodiless statuses; oracle: decode the client's bytes by the Content-Encoding/Content-Length it received == backend body, status equal, compressed only if eligible, otherwise byte-identical (C01 oracle). The 10MB buffering cap is not exercised in the quick tier.",
		Real:        sysReal, Stub: sysStub, Assumptions: commonAssumptions,
		ExpectProbes: []string{"compressed"},
	},
	"C12": {
		Level:     "exploration",
		Race:      true,
		Scenarios: []ScenPlan{{"sysrace", 1600, 24000}, {"comprace", 1600, 24000}, {"idsrace", 320, 4800}, {"wsrace", 320, 4800}},
		Micro:     []ScenPlan{{"lbmix", 16000, 400000}},
		
		QuickWallS: 200, ThoroughWallS: 1700,
		Rule:        "Scenario sysrace (binary built with -race, network in free-delivery mode, GOMAXPROCS=4 per worker): 8-24 (thorough 8-64) goroutines running a drawn mix of client traffic with 5xx/reset/short-body faults, admin add/remove/strategy/list, /metrics, /health, /v1/backends readers, passive+active health transitions, breaker, limiter, plugins, then shutdownGracefully; every strategy and feature combination is drawn. The workload is seed-determined; the schedule is the Go scheduler's. Violations: race-detector reports with Helios frames (fingerprint = the two sites), panics, goroutines stuck on Helios locks. Scenario comprace (same build): circuit breaker (millisecond timeouts, so it cycles through its states hundreds of times per run), rate limiter (cleanup against buckets in use, ever new clients), WebSocket pool (cleanup/shutdown against Get/Put/Close) and metrics collector, each hammered directly by 4-12 free-running goroutines; in half of the runs of both scenarios every goroutine yields the processor right after releasing a lock. Second phase, scenario lbmix (ordinary build, seeded cooperative scheduler): bursts of 3-10 (thorough up to 24) tasks drawn from client traffic with backend faults, admin list/add/remove/strategy, metrics/health readers, explicit ejections, Stop, with probes and elapsed unhealthy windows between bursts, preempted at every Helios lock, atomic and go statement; the RWMutex model gives waiting writers preference over new readers as sync.RWMutex does; violations: wait-for cycles / tasks blocked for good, spinning without progress, panics out of Helios code, WaitGroup misuse -- each with a replayable schedule.",
		Real:        sysReal, Stub: append(append([]string{}, sysStub...), "goroutine scheduling: NOT simulated in this check (Go runtime under the race detector)"), Assumptions: append(append([]string{}, commonAssumptions...), "race detector (happens-before) decides; reproduction of a report from its seed is attempted up to 6 times because the schedule is not seed-decided"),
		ExpectProbes: []string{"race-run-completed"},
	},
}
