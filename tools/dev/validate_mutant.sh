#!/bin/bash
# usage: validate_mutant.sh <worktree> <demo-pkg-dir> <checks...>
wt=$1; pkg=$2; shift 2
export GOFLAGS=-mod=mod GOPROXY=off GOSUMDB=off
cd $wt
echo "== $wt: diff stat"; git apply --check -R mutant.diff 2>/dev/null && echo "change applied" || echo "WARNING: tree does not match mutant.diff"
grep -c . mutant.diff
echo "== suite with change (skipping demo)"
go test -vet=off -count=1 -skip 'Demo' ./... 2>&1 | grep -v "no test files" | grep -v "^ok" | head -5; echo "suite rc done"
echo "== demo with change"
go test -vet=off -count=1 -run 'Demo' ./$pkg 2>&1 | tail -3
git apply -R mutant.diff
echo "== demo without change"
go test -vet=off -count=1 -run 'Demo' ./$pkg 2>&1 | tail -2
git apply mutant.diff
echo "== my checks with change applied to /repo"
cd /repo && git apply $wt/mutant.diff || exit 1
for p in "$@"; do
  out=$(/verif/bin/vcheck check $p quick 2>&1); ec=$?
  echo "[$p exit=$ec]"; echo "$out" | grep "^  fingerprint=" | sed 's/.*fingerprint=\([^ ]*\) runs=\([^ ]*\).*/   \1 runs=\2/' | head -6
done
git checkout -- .
git status --short | head -2
# evidence files must describe runs against the unchanged tree only
git -C /verif checkout -- evidence
