import sys, json, os, shutil, glob
# usage: store_mutant.py <ID> <prop> <demo rel path> <change> <needs> <caught_by>
id_, prop, demo, change, needs, caught = sys.argv[1:7]
wt = f"/tmp/wt-{id_}"
dst = f"/verif/seeded/{id_}"
os.makedirs(dst, exist_ok=True)
shutil.copy(f"{wt}/mutant.diff", f"{dst}/patch.diff")
if os.path.exists(f"{wt}/MUTANT.md"): shutil.copy(f"{wt}/MUTANT.md", f"{dst}/MUTANT.md")
flat = demo.replace("/", "__") + ".txt"
shutil.copy(f"{wt}/{demo}", f"{dst}/{flat}")
pkg = os.path.dirname(demo)
meta = {
 "property": prop,
 "author": "independent sub-agent (saw only the property text, a diversity hint and its own worktree)",
 "change": change,
 "needs_to_manifest": needs,
 "demonstration": [{"file": flat, "install_as": demo, "run": f"go test -vet=off -count=1 -run TestDemo ./{pkg}"}],
 "confirmed_by_me": ["repository suite passes with the change", "demonstration fails with the change and passes without it", "bin/vcheck check <property> quick with the patch applied to /repo, then git checkout -- ."],
 "caught_by": caught,
}
json.dump(meta, open(f"{dst}/meta.json", "w"), indent=1, ensure_ascii=False)
print("stored", dst)
