#!/bin/bash
# for every seeded change: does its own demonstration still FAIL with the patch applied to HEAD?
export GOFLAGS=-mod=mod GOPROXY=off GOSUMDB=off
rm -rf /tmp/wt-demo; git -C /repo worktree add --detach /tmp/wt-demo HEAD >/dev/null 2>&1
cd /tmp/wt-demo
for id in "$@"; do
  git checkout -q -- . ; git clean -fdq -e zz_nothing >/dev/null 2>&1; find . -name 'zz_demo*_test.go' -delete
  if ! git apply /verif/seeded/$id/patch.diff 2>/dev/null; then echo "$id NOAPPLY"; continue; fi
  pkgs=$(python3 - $id <<'PY'
import json,sys,shutil,os
id=sys.argv[1]
m=json.load(open(f'/verif/seeded/{id}/meta.json'))
pk=set()
for d in m.get('demonstration',[]):
    dst='/tmp/wt-demo/'+d['install_as']; os.makedirs(os.path.dirname(dst),exist_ok=True)
    shutil.copy(f'/verif/seeded/{id}/'+d['file'], dst); pk.add('./'+os.path.dirname(d['install_as']))
# extra demo files stored by hand
import glob
for f in glob.glob(f'/verif/seeded/{id}/*zz_demo*_test.go.txt'):
    rel=os.path.basename(f)[:-4].replace('__','/')
    dst='/tmp/wt-demo/'+rel
    if not os.path.exists(dst):
        os.makedirs(os.path.dirname(dst),exist_ok=True); shutil.copy(f,dst); pk.add('./'+os.path.dirname(rel))
print(' '.join(sorted(pk)))
PY
)
  if [ -z "$pkgs" ]; then echo "$id NODEMO"; continue; fi
  out=$(timeout 300 go test -vet=off -count=1 -run TestDemo $pkgs 2>&1); ec=$?
  if [ $ec -eq 0 ]; then echo "$id DEMO-PASSES-AT-HEAD (masked or demo needs -race)"; else echo "$id demo fails (ok)"; fi
done
cd /; git -C /repo worktree remove --force /tmp/wt-demo; git -C /repo worktree prune
