#!/bin/bash
# usage: revert_test.sh <commit> <id> <props...>
c=$1; id=$2; shift 2
cd /repo
git diff $c $c^ > /tmp/rev_$id.diff
if ! git apply --check /tmp/rev_$id.diff 2>/dev/null; then echo "$id $c: revert does not apply cleanly"; exit 0; fi
git apply /tmp/rev_$id.diff
if ! go build ./... 2>/dev/null; then echo "$id: does not build"; git checkout -- .; exit 0; fi
tests=$(go test -vet=off -count=1 ./... 2>&1 | grep -c "^FAIL")
res=""
for p in "$@"; do
  out=$(/verif/bin/vcheck check $p quick 2>&1); ec=$?
  fps=$(echo "$out" | grep "fingerprint=" | sed 's/.*fingerprint=\([^ ]*\).*/\1/' | tr '\n' ' ')
  res="$res [$p exit=$ec $fps]"
done
git checkout -- .
echo "$id $c suite_fail=$tests $res"
