#!/bin/bash
# usage: regress.sh <id...> : apply each seeded patch to /repo, run the check(s) named in meta, report
cd /verif
for id in "$@"; do
  meta=/verif/seeded/$id/meta.json
  prop=$(python3 -c "
import json,re,sys
m=json.load(open('$meta'))
p=m.get('breaks') or m.get('property')
print(re.findall(r'C\d\d',p)[0])")
  cb=$(python3 -c "
import json
m=json.load(open('$meta')); print((m.get('caught_by') or m.get('expected_fingerprint') or '')[:60])")
  if ! git -C /repo apply /verif/seeded/$id/patch.diff 2>/dev/null; then echo "$id: does not apply"; continue; fi
  out=$(nice -n 10 bin/vcheck check $prop quick 2>&1); ec=$?
  git -C /repo checkout -- .
  echo "$id $prop exit=$ec $(echo "$out" | grep -E '^  fingerprint=' | sed 's/.*fingerprint=\([^ ]*\) runs=\([^ ]*\).*/\1 \2/' | head -2 | tr '\n' ';') [was: $cb]"
done
git -C /verif checkout -- evidence
