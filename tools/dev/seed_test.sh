#!/bin/bash
# usage: seed_test.sh <patch> <props...>  : applies a patch to /repo, runs suite + checks, reverts
pt=$1; shift
cd /repo
if ! git apply --check $pt 2>/dev/null; then echo "patch does not apply: $pt"; exit 0; fi
git apply $pt
if ! go build ./... 2>/dev/null; then echo "does not build"; git checkout -- .; exit 0; fi
tests=$(go test -vet=off -count=1 ./... 2>&1 | grep -c "^FAIL\|^---")
res=""
for p in "$@"; do
  out=$(/verif/bin/vcheck check $p quick 2>&1); ec=$?
  fps=$(echo "$out" | grep "fingerprint=" | sed 's/.*fingerprint=\([^ ]*\).*/\1/' | head -4 | tr '\n' ' ')
  res="$res [$p exit=$ec $fps]"
done
git checkout -- .
echo "$(basename $(dirname $pt)) suite_fail=$tests $res"
