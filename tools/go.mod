module veriftools

go 1.26
