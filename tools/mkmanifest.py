#!/usr/bin/env python3
"""Regenerates /verif/MANIFEST.json from the table below (run from /verif)."""
import json
BASE_NOTE = ("Trusted base: Go 1.26.8 toolchain/stdlib incl. testing/synctest (fake clock, quiescence); vinstr's syntactic substitution of "
  "sync/atomic/go/ticker/dialer/transport seams (internal/logging's lock excluded); simnet's TCP model (no back-pressure, no loss inside a stream); "
  "the scenario generators and oracles in sim/harness. Sampling: a clean batch is evidence, not proof.")
MICRO = "deterministic simulation (micro-sim): seeded cooperative scheduler at every sync/atomic/go seam + synctest fake clock; scripted backend round-trippers; choice-trace minimisation and fresh-process replay"
SYS = "deterministic simulation (system-sim): real http.Server/ReverseProxy/Transport over a seeded, driver-mediated in-memory network with fault injection; differential oracles on what each end sent/received; choice-trace minimisation and replay"
CHECKS = {
 "C01": (SYS, "Seeded search over exchanges and network interleavings: differential transparency oracle (method, target, headers, body, framing, status, interim responses) and fake-clock streaming oracle on every fault-free exchange.", "§3 C01"),
 "C02": (MICRO, "Seeded search over strategies, pools, ejection subsets, rotation positions, in-flight vectors, client addresses and interleavings; ejections only through real failures; no dispatch into an observed unhealthy window, 503 only if no backend is outside every window.", "§3 C02"),
 "C03": (SYS, "Seeded fault sequences (length <= 6 quick / 12 thorough) over the property's fault alphabet with swarm configuration: no panic, bounded completion within the configured timeouts, recovery request served after faults stop, lock-wedge diagnosis from the instrumented locks' wait-for graph.", "§3 C03"),
 "C04": (MICRO, "Same runs as C02 with the cause/ejection envelope (only after threshold failures or a failed probe; threshold in a row / failed probe must eject), window enforcement, admin+metrics reporting and a bounded recovery workload per strategy.", "§3 C04"),
 "C05": (MICRO, "Seeded histories (add/remove/eject/recover) then a measurement window: round_robin exact windows and exact totals under concurrent pickers interleaved at the atomic counter; weighted_round_robin exact fresh-pool windows and the stated bound over every sub-window; least_connections minimal in-flight.", "§3 C05"),
 "C06": (MICRO, "Seeded client identities, epochs (append/remove/eject/expiry) and concurrent traffic: one identity -> one backend per epoch, append moves keys only to the appended backend, every choice eligible, no panic for junk addresses. PARTIAL: the exhaustive 2^32 x pool-size sweep of the hash step is a pure function and is not performed.", "§3 C06, §4"),
 "C07": (MICRO, "Seeded search over schedules and histories: the real CircuitBreaker under the cooperative scheduler (every lock acquisition is a scheduling point), 1-4 concurrent clients plus a boundary burst; transition-stamped history checked against the envelope of the stated rules; and the breaker as wired in the balancer (5xx / unreachable / aborted failures must open; open rejects without backend contact).", "§3 C07"),
 "C08": (MICRO, "Recovery script from whatever state the drawn history reached, at component level (validator-accepted parameters) and through the balancer (accepted configurations): closed and admitting within timeout + success_threshold+max_requests+1 successes, with sequential traffic and with groups of overlapping requests one timeout apart; wait-for-graph deadlock / no-progress detection on state-change notifications.", "§3 C08"),
 "C09": (MICRO, "Seeded arrival histories on the fake clock (bursts of concurrent tasks, gaps around the refill period, idle hours across bucket expiry, a client returning at the very instant of a cleanup tick): all-pairs window bound, burst bound, full first burst, refill after idling, isolation by differential execution; at balancer level 429 + not forwarded + counted and client-key precedence.", "§3 C09"),
 "C11": (MICRO, "Seeded sequential and concurrent admin histories (2-4 actors + traffic) through the real admin mux; linearizability of the step-stamped history against a sequential multiset model (porcupine); traffic served throughout (with instant and with slow backends whose requests are in flight across the changes; no request waits virtual time between arrival and dispatch) and never by a definitely removed backend; strategy switch preserves health.", "§3 C11"),
 "C12": ("two phases: (1) deterministic simulation workload (seeded) executed by free-running goroutines under the Go race detector (happens-before analysis; schedule not seed-decided) for data races; (2) deterministic micro-simulation of the same operation mix under the seeded cooperative scheduler with wait-for-graph deadlock detection (writer-preferring RWMutex model), panic and WaitGroup-misuse detection, replayable", "Seeded workloads of 8-64 goroutines (traffic with faults, admin mutations, metrics/health/backends readers, health transitions, breaker, limiter, shutdown) over the real stack built with -race, every strategy and feature combination drawn; violations are race reports touching Helios frames, panics, goroutines stuck on Helios locks (wait-for cycle incl. read-lock holders). Second phase, scenario lbmix: 3-10 (thorough up to 24) cooperative tasks per burst -- traffic with backend faults, admin list/add/remove/strategy, metrics/health readers, MarkBackendUnhealthy, probes, elapsed windows, Stop -- preempted at every Helios lock/atomic/go statement by the seeded scheduler; deadlock, no-progress, panic and WaitGroup misuse are violations with a replayable schedule.", "§3 C12"),
 "C14": (SYS, "Seeded exchanges through size_limit at drawn chain positions (one entry, or two entries with the stricter limit of each direction on either): limits 1-4096, bodies at limit-1/limit/limit+1/3x in declared and chunked framing, response bodies split into writes and network fragments, every status class incl. bodiless; byte bounds at both ends, 413 rules, and the C01 differential oracle within the limits.", "§3 C14"),
 "C15": (SYS, "Seeded exchanges through gzip at drawn chain positions: Accept-Encoding spellings, content types, sizes around min_size and 64KiB-4MiB(+-1), compressible/incompressible payloads, pre-encoded backend responses, levels -1..9; the client's bytes decoded by the headers it received must equal the backend's body with the backend's status; compressed only if eligible, otherwise byte-identical. The 10MB buffering cap is crossed by a dedicated case (bodies of 10MB+-k through the cap's pass-through path; a few dozen per quick run, more in thorough).", "§3 C15"),
 "C13": (MICRO + " + " + SYS, "Conservation equations at every quiescent point against the harness' own tallies over every request class, sequential and concurrent (micro, exact per backend), and after fault sequences behind the real server (system: totals, classes, gauges at idle).", "§3 C13"),
 "C16": (MICRO + " + " + SYS, "Identifier middleware under concurrent generation at one frozen virtual instant (distinctness, echo, handler-sees-what-client-gets, disabled untouched) and the same invariants on every exchange of the system-level transparency runs.", "§3 C16"),
 "C19": (MICRO, "Stop() at drawn virtual instants (before first probe, mid-probe, between ticks, at a tick) and drawn interleavings with the ticker goroutine, repeated/concurrent Stop calls: bounded return, no probe after return, WaitGroup reuse (a real sync.WaitGroup panic) detected by the instrumented WaitGroup; the real shutdownGracefully over the simulated network with requests in flight; the connection pool whose Shutdown Stop calls, shut down in the middle of pool traffic and at the instant of a cleanup tick (returns, leaves no parked connection open).", "§3 C19"),
 "C20": (MICRO, "The real WebSocketPool under 1-3 holder tasks, cleanup ticks and shutdown on the fake clock: exclusivity, staleness, idle bound, closure on shutdown, never closing a held connection. Tunnel part (scenario sysws, system simulation): an Upgrade session through every drawn plugin chain over the driver-mediated network, Connection header in five token-list spellings, binary messages 0-100KB in both directions in drawn interleavings and fragmentations, quiet periods longer than every configured timeout, either side closing: bytes equal in order, close propagated, session never cut by Helios.", "§3 C20"),
}
NA = {
 "C10": "pure function of (peer address, headers, configuration): no schedule, clock, fault or interleaving for a simulator to search (DESIGN.md §4)",
 "C17": "pure function of the configured chain and one request / of the configuration: nothing for a simulator to search (DESIGN.md §4)",
 "C18": "pure function of the configuration text; no concurrency, time or I/O fault involved (DESIGN.md §4)",
}
PENDING = {}
def main():
    props=[json.loads(l) for l in open('properties.jsonl')]
    checks=[]; na=[]
    for p in props:
        pid=p['id']
        if pid in CHECKS:
            tech,text,ref=CHECKS[pid]
            checks.append({"property_id":pid,"quick_cmd":f"bin/vcheck check {pid} quick","thorough_cmd":f"bin/vcheck check {pid} thorough",
              "evidence_file":f"evidence/{pid}.json","replay_cmd_template":"bin/vcheck replay {path}","engine":"helios-dst",
              "level_claimed":{"category":"exploration","text":text,"design_ref":"DESIGN.md "+ref},"level_note":BASE_NOTE,"technique":tech})
        elif pid in NA:
            na.append({"property_id":pid,"reason":NA[pid]})
        else:
            na.append({"property_id":pid,"reason":PENDING.get(pid,"check not built yet in this session (planned: DESIGN.md §3)")})
    m={"version":1,"setup_cmd":"sh bin/setup.sh",
     "hooks":{"guard":"none: no source hooks are committed to /repo; seams are created at check time by tools/vinstr (AST-driven textual substitution into a go build -overlay), so the shipped tree is unchanged",
       "enable":"bin/vcheck instruments /repo's working tree into build/<id>/ and builds cmd/helios' test binary with -overlay/-modfile under go1.26.8",
       "baseline_off_cmd":"cd /repo && go test -vet=off -count=1 ./...","source_commits":[],"add_only":True},
     "engines":[{"name":"helios-dst","path":"bin/vcheck","serves_properties":sorted(CHECKS),"kind_free_text":"deterministic simulation with fault injection: real Helios code in a testing/synctest bubble; micro-sim = seeded cooperative scheduler at every sync seam; system-sim = real net/http stack over a seeded in-memory network; choice-trace replay and minimisation"}],
     "checks":checks,"not_applicable":na,
     "notes":"All checks rebuild from /repo's working tree. Exit 2 = harness/build trouble (never an alarm). VERIF_SEED selects the base seed. Genuine defects found on the pinned tree were repaired with 'fix:' commits in /repo; known_findings.json lists them as fixed (fixed entries suppress nothing)."}
    json.dump(m,open('MANIFEST.json','w'),indent=1)
if __name__=='__main__': main()
